// C05: wrong, missing or surplus parameters raise the right error and are never mis-delivered;
//      the input call returns false exactly when it overran or the last message it executed raised an error.
// Parameter lists are built from items whose class and value are known by construction (Appendix A.1 of DESIGN.md).
#include <memory>
#include "../world.h"

namespace {

enum Cls { C_DEC = 0, C_DECSUF, C_NONDEC, C_MNEM, C_STR, C_BLK, C_EXPR, C_NCLS };
enum Reader { R_I32 = 0, R_U32, R_I64, R_U64, R_FLOAT, R_DOUBLE, R_NUMBER, R_BOOL, R_CHOICE, R_COPYTEXT, R_BLOCK, R_CHARS, R_RAW, R_ARR_I32, R_ARR_DBL, R_NREADERS };
const char *READER_NAME[] = {"Int32", "UInt32", "Int64", "UInt64", "Float", "Double", "Number", "Bool", "Choice", "CopyText", "ArbitraryBlock", "Characters", "Parameter", "ArrayInt32", "ArrayDouble"};
const char *CLS_NAME[] = {"DEC", "DECSUF", "NONDEC", "MNEM", "STR", "BLK", "EXPR"};

// tags are the application's own numbers: small, negative ("-1 = automatic" is a firmware habit), zero, large
// names as the data sheet spells them: some start with a lower-case letter (dBm, mW); matching ignores case
const scpi_choice_def_t trig_choice[] = {{"BUS", 5}, {"IMMediate", 6}, {"EXTernal", 7}, {"TIMer", -1}, {"MANual", 0}, {"LINE", 2147483647}, {"HOLD", -2147483647 - 1},
                                         {"dBm", 9}, {"mW", 10}, SCPI_CHOICE_LIST_END};

struct MnemInfo {
    const char *lit;
    bool is_bool, is_choice, is_special;
};
const MnemInfo MNEMS[] = {
    {"ON", true, false, false},   {"OFF", true, false, false},       {"on", true, false, false},    {"MIN", false, false, true},  {"MINimum", false, false, true},
    {"MAX", false, false, true},  {"maximum", false, false, true},   {"DEF", false, false, true},   {"UP", false, false, true},   {"DOWN", false, false, true},
    {"NAN", false, false, true},  {"INF", false, false, true},       {"INFinity", false, false, true}, {"NINF", false, false, true}, {"AUTO", false, false, true},
    {"BUS", false, true, false},  {"IMM", false, true, false},       {"IMMediate", false, true, false}, {"ext", false, true, false},  {"EXTERNAL", false, true, false},
    {"TIM", false, true, false},  {"timer", false, true, false},     {"MAN", false, true, false},   {"LINE", false, true, false}, {"hold", false, true, false},
    {"DBM", false, true, false},  {"dbm", false, true, false},       {"dBm", false, true, false},   {"MW", false, true, false},   {"mw", false, true, false},
    {"FOO", false, false, false}, {"abc_1", false, false, false},    {"IMMED", false, false, false}, {"O", false, false, false},   {"MINI", false, false, false},
};
const MnemInfo *find_mnem(const std::string &s) {
    for (auto &m : MNEMS)
        if (s == m.lit) return &m;
    return nullptr;
}
const char *KNOWN_SUFFIX[] = {"V", "mV", "kOHM", "OHM", "Hz", "s", "ms", "A", "uV", "MHZ"};
const char *UNKNOWN_SUFFIX[] = {"xyz", "FOO", "Vx", "qq", "V/S", "M2", "S-1", "OHM.M", "HZ/S", "V2/HZ", "M/S2"};   // incl. compound units the standard table lacks
// known exactly when the context was given the application's own unit table (knob custom_units), in any letter case
const char *CUSTOM_SUFFIX[] = {"mVpp", "MVPP", "mvpp", "Vrms", "VRMS", "dBc", "DBC", "dbc", "V/us", "V/US", "m3"};
bool g_custom_units = false;

// ---- independent validators: a plan whose literal does not belong to the class it is labelled with is inert
bool is_dec(const std::string &s, bool *is_int = nullptr) {
    size_t i = 0, n = s.size();
    if (i < n && (s[i] == '+' || s[i] == '-')) i++;
    size_t d1 = 0, d2 = 0, lead0 = 0;
    while (i < n && isdigit((unsigned char) s[i])) {
        if (s[i] == '0' && lead0 == d1) lead0++;   // leading zeros carry no value, however many there are
        i++, d1++;
    }
    bool dot = false;
    if (i < n && s[i] == '.') {
        dot = true;
        i++;
        while (i < n && isdigit((unsigned char) s[i])) i++, d2++;
    }
    if (d1 + d2 == 0) return false;
    bool expo = false;
    // 488.2 7.7.2.2 allows white space between mantissa and exponent and after the 'E'
    size_t j = i;
    while (j < n && (s[j] == ' ' || s[j] == '\t')) j++;
    if (j < n && (s[j] == 'e' || s[j] == 'E')) {
        expo = true;
        i = j + 1;
        while (i < n && (s[i] == ' ' || s[i] == '\t')) i++;
        if (i < n && (s[i] == '+' || s[i] == '-')) i++;
        size_t d3 = 0;
        while (i < n && isdigit((unsigned char) s[i])) i++, d3++;
        if (!d3) return false;
    }
    if (is_int) *is_int = !dot && !expo && d1 > 0 && d1 - lead0 <= 9;
    return i == n;
}
// <decimal number>[blanks]<suffix>; a suffix starts with a letter and goes on with letters, digits, '/', '.', '-'
// (488.2 7.7.3: compound and exponent units such as V/S, M2, S-1, OHM.M)
bool split_decsuf(const std::string &s, std::string &num, std::string &suf) {
    size_t i = 0, n = s.size();
    if (i < n && (s[i] == '+' || s[i] == '-')) i++;
    size_t d = 0;
    while (i < n && isdigit((unsigned char) s[i])) i++, d++;
    if (i < n && s[i] == '.') {
        i++;
        while (i < n && isdigit((unsigned char) s[i])) i++, d++;
    }
    if (!d) return false;
    // exponent only if digits follow the E (otherwise the E begins the suffix)
    {
        size_t j = i;
        while (j < n && (s[j] == ' ' || s[j] == '\t')) j++;
        if (j < n && (s[j] == 'e' || s[j] == 'E')) {
            size_t k = j + 1;
            while (k < n && (s[k] == ' ' || s[k] == '\t')) k++;
            if (k < n && (s[k] == '+' || s[k] == '-')) k++;
            size_t d3 = 0;
            while (k < n && isdigit((unsigned char) s[k])) k++, d3++;
            if (d3) i = k;
        }
    }
    num = s.substr(0, i);
    size_t j = i;
    while (j < n && s[j] == ' ') j++;
    suf = s.substr(j);
    if (suf.empty() || !isalpha((unsigned char) suf[0])) return false;
    for (char c : suf)
        if (!(isalnum((unsigned char) c) || c == '/' || c == '.' || c == '-')) return false;
    if (suf == "e" || suf == "E") return false;
    return is_dec(num);
}
bool is_nondec(const std::string &s, uint64_t *val = nullptr) {
    if (s.size() < 3 || s[0] != '#') return false;
    int base = (s[1] == 'H' || s[1] == 'h') ? 16 : (s[1] == 'Q' || s[1] == 'q') ? 8 : (s[1] == 'B' || s[1] == 'b') ? 2 : 0;
    if (!base || s.size() > 2 + 15) return false;
    uint64_t v = 0;
    for (size_t i = 2; i < s.size(); i++) {
        int d = isdigit((unsigned char) s[i]) ? s[i] - '0' : isxdigit((unsigned char) s[i]) ? (tolower(s[i]) - 'a' + 10) : 99;
        if (d >= base) return false;
        v = v * (uint64_t) base + (uint64_t) d;
    }
    if (val) *val = v;
    return true;
}
bool is_str(const std::string &s, std::string *content = nullptr) {
    if (s.size() < 2) return false;
    char q = s[0];
    if (q != '"' && q != '\'') return false;
    std::string c;
    size_t i = 1;
    for (;;) {
        if (i >= s.size()) return false;
        unsigned char ch = (unsigned char) s[i];
        if (ch > 0x7f || ch == '\n' || ch == '\r') return false;
        if (s[i] == q) {
            if (i + 1 < s.size() && s[i + 1] == q) {
                c += q;
                i += 2;
                continue;
            }
            break;
        }
        c += s[i++];
    }
    if (i != s.size() - 1) return false;
    if (content) *content = c;
    return true;
}
bool is_blk(const std::string &s, std::string *body = nullptr) {
    if (s.size() < 3 || s[0] != '#' || s[1] < '1' || s[1] > '9') return false;
    size_t nd = (size_t) (s[1] - '0');
    if (s.size() < 2 + nd) return false;
    size_t len = 0;
    for (size_t i = 0; i < nd; i++) {
        if (!isdigit((unsigned char) s[2 + i])) return false;
        len = len * 10 + (size_t) (s[2 + i] - '0');
    }
    if (s.size() != 2 + nd + len) return false;
    for (size_t i = 2 + nd; i < s.size(); i++)
        if (s[i] == '\n' || s[i] == '\r') return false;   // keep the unit text free of terminators (not a restriction of the property, keeps attribution simple)
    if (body) *body = s.substr(2 + nd);
    return true;
}
bool is_expr(const std::string &s) {
    if (s.size() < 2 || s[0] != '(' || s.back() != ')') return false;
    for (size_t i = 1; i + 1 < s.size(); i++) {
        unsigned char c = (unsigned char) s[i];
        if (c < 0x20 || c > 0x7e || strchr("\"#'();", c)) return false;
    }
    return true;
}

struct Item {
    int cls;
    std::string lit;
    int ws_before = 0, ws_after = 0;   // blanks before / after the comma that precedes this item (or after the header for the first)
};
struct ReaderStep {
    int reader;
    bool mandatory;
    int bufmode = 0;   // CopyText: 0 roomy buffer, 1 exact fit (content + NUL), 2 one byte short, 3 two bytes
};
struct HandlerScript {
    int policy = 0;   // 0: ERR iff a reader raised an error; 1: always OK; 2: always ERR silently; 3: push own code then ERR; 4: push own code then OK; 5: NULL callback
    int own_code = -222;
    std::vector<ReaderStep> steps;
};
struct PlannedUnit {
    int hid = 0;
    int trail = 0;         // blanks after the last item (or after the header when the list is empty): legal, must change nothing
    std::vector<Item> items;
    std::string bad;       // malformed fragment appended to the list (MALFORMED when non-empty)
    bool valid = true;     // labels agree with literals
    // filled during execution
    bool ran = false;
    bool delivered = false;   // some reader was handed a parameter
};

// expected code for (reader, item); 0 = ok; alt = second acceptable code (0 if none)
void expect_cell(int reader, const Item &it, int &code, int &alt) {
    code = alt = 0;
    std::string num, suf;
    switch (reader) {
        case R_I32:
        case R_U32:
        case R_I64:
        case R_U64:
        case R_FLOAT:
        case R_DOUBLE:
        case R_ARR_I32:
        case R_ARR_DBL:
            if (it.cls == C_DEC || it.cls == C_NONDEC) code = 0;
            else if (it.cls == C_DECSUF) code = -138;
            else code = -104;
            break;
        case R_NUMBER:
            if (it.cls == C_DEC || it.cls == C_NONDEC) code = 0;
            else if (it.cls == C_DECSUF) {
                split_decsuf(it.lit, num, suf);
                bool known = false;
                for (auto k : KNOWN_SUFFIX) known |= suf == k;
                if (g_custom_units)
                    for (auto k : CUSTOM_SUFFIX) known |= suf == k;
                code = known ? 0 : -131;
            } else if (it.cls == C_MNEM) {
                const MnemInfo *m = find_mnem(it.lit);
                code = (m && m->is_special) ? 0 : -224;
            } else code = -104;
            break;
        case R_BOOL:
            if (it.cls == C_DEC) code = 0;
            else if (it.cls == C_DECSUF) {
                code = -104;
                alt = -138;
            } else if (it.cls == C_MNEM) {
                const MnemInfo *m = find_mnem(it.lit);
                code = (m && m->is_bool) ? 0 : -224;
            } else code = -104;
            break;
        case R_CHOICE:
            if (it.cls == C_MNEM) {
                const MnemInfo *m = find_mnem(it.lit);
                code = (m && m->is_choice) ? 0 : -224;
            } else if (it.cls == C_DECSUF) {
                code = -104;
                alt = -138;
            } else code = -104;
            break;
        case R_COPYTEXT: code = it.cls == C_STR ? 0 : -104; break;
        case R_BLOCK: code = it.cls == C_BLK ? 0 : -104; break;
        default: code = 0; break;
    }
}

struct PRun {
    World &w;
    Verdict &v;
    std::vector<HandlerScript> scripts;
    std::vector<PlannedUnit> units;
    bool avoid_leading_dot = false;

    // errors raised during one library call
    std::vector<int> codes_since(size_t mark) {
        std::vector<int> c;
        for (size_t i = mark; i < w.errs.size(); i++)
            if (w.errs[i].code != 0 && w.errs[i].code != -350) c.push_back(w.errs[i].code);
        return c;
    }

    // one reader applied to item `it` (nullptr: absent). returns true if the reader raised an error.
    bool apply(int reader, bool mandatory, const Item *it, PlannedUnit &pu, bool malformed, int inner_of = -1, int bufmode = 0) {
        scpi_t *c = w.ctx;
        size_t mark = w.errs.size();
        bool ret = false;
        int32_t i32 = 0;
        uint32_t u32 = 0;
        int64_t i64 = 0;
        uint64_t u64 = 0;
        float f = 0;
        double d = 0;
        scpi_number_t num;
        memset(&num, 0, sizeof num);
        scpi_bool_t b = FALSE;
        int32_t ch = 0;
        // the handler's text buffer: roomy, or sized to the item (exact-size allocation: an overrun lands in an ASan red zone)
        size_t tbn = 300;
        std::string str_content;
        bool have_content = it && !malformed && it->cls == C_STR && is_str(it->lit, &str_content);
        if (reader == R_COPYTEXT && have_content && bufmode) {
            if (bufmode == 1) tbn = str_content.size() + 1;
            else if (bufmode == 2) tbn = str_content.size();
            else tbn = 2;
            COUNT(bufmode == 1 ? "probe_text_buffer_exact_fit" : "probe_text_buffer_too_small");
        }
        char *tb = (char *) malloc(tbn);
        size_t tlen = 0;
        const char *ptr = nullptr;
        size_t plen = 0;
        scpi_parameter_t raw;
        memset(&raw, 0, sizeof raw);
        switch (reader) {
            case R_I32: ret = SCPI_ParamInt32(c, &i32, mandatory); break;
            case R_U32: ret = SCPI_ParamUInt32(c, &u32, mandatory); break;
            case R_I64: ret = SCPI_ParamInt64(c, &i64, mandatory); break;
            case R_U64: ret = SCPI_ParamUInt64(c, &u64, mandatory); break;
            case R_FLOAT: ret = SCPI_ParamFloat(c, &f, mandatory); break;
            case R_DOUBLE: ret = SCPI_ParamDouble(c, &d, mandatory); break;
            case R_NUMBER: ret = SCPI_ParamNumber(c, scpi_special_numbers_def, &num, mandatory); break;
            case R_BOOL: ret = SCPI_ParamBool(c, &b, mandatory); break;
            case R_CHOICE: ret = SCPI_ParamChoice(c, trig_choice, &ch, mandatory); break;
            case R_COPYTEXT: ret = SCPI_ParamCopyText(c, tb, tbn, &tlen, mandatory); break;
            case R_BLOCK: ret = SCPI_ParamArbitraryBlock(c, &ptr, &plen, mandatory); break;
            case R_CHARS: ret = SCPI_ParamCharacters(c, &ptr, &plen, mandatory); break;
            default: ret = SCPI_Parameter(c, &raw, mandatory); break;
        }
        std::vector<int> codes = codes_since(mark);
        std::string rn = READER_NAME[inner_of >= 0 ? inner_of : reader];
        // the handler-visible error flag agrees with what was raised in this unit so far
        if (!v.violated) {
            bool any_in_unit = false;
            if (UnitRec *u = w.unit())
                for (int e : u->errs) any_in_unit |= e != 0;
            if ((bool) SCPI_ParamErrorOccurred(c) != any_in_unit)
                v.fail("error-flag", fmt("reader=%s flag=%d raised=%d", rn.c_str(), (int) SCPI_ParamErrorOccurred(c), any_in_unit),
                       fmt("after %s: SCPI_ParamErrorOccurred()=%d but %s error was raised in this unit", rn.c_str(), (int) SCPI_ParamErrorOccurred(c), any_in_unit ? "an" : "no"));
        }
        std::string copied(tb, tlen < tbn ? tlen : tbn);
        bool nul_ok = tlen >= tbn || tb[tlen] == 0;
        free(tb);
        bool raised = !codes.empty();
        if (v.violated) return raised;
        if (malformed) {
            // nothing from a malformed list may reach a reader: the only acceptable outcomes are "absent"
            bool absent_ok = !ret && (codes.empty() || (codes.size() == 1 && codes[0] == -109));
            if (!absent_ok) {
                pu.delivered = true;
                v.fail("malformed-delivered", fmt("reader=%s", rn.c_str()),
                       fmt("unit with malformed parameter list: reader %s returned %d raising [%s] - a parameter from the list was handed to it", rn.c_str(), ret,
                           codes.empty() ? "" : std::to_string(codes[0]).c_str()));
            }
            return raised;
        }
        if (!it) {
            // ABSENT
            if (reader == R_RAW && !v.violated && codes.size() <= 1) {
                // documented absence report: SCPI_ParamIsValid() is TRUE when an optional parameter is just missing, FALSE after an error
                bool valid = SCPI_ParamIsValid(&raw);
                if (valid != !mandatory)
                    v.fail(mandatory ? "absent-mandatory" : "absent-optional", "reader=Parameter isvalid",
                           fmt("SCPI_Parameter(%s) on an exhausted list: SCPI_ParamIsValid() reports %d", mandatory ? "mandatory" : "optional", valid));
            }
            if (mandatory) {
                if (ret || codes.size() != 1 || codes[0] != -109)
                    v.fail("absent-mandatory", fmt("reader=%s", rn.c_str()),
                           fmt("mandatory %s on an exhausted list returned %d and raised %zu code(s) (first %d); expected FALSE and exactly -109", rn.c_str(), ret,
                               codes.size(), codes.empty() ? 0 : codes[0]));
            } else {
                if (ret || !codes.empty())
                    v.fail("absent-optional", fmt("reader=%s", rn.c_str()),
                           fmt("optional %s on an exhausted list returned %d and raised %zu code(s); expected FALSE and nothing", rn.c_str(), ret, codes.size()));
            }
            COUNT(mandatory ? "probe_absent_mandatory" : "probe_absent_optional");
            return raised;
        }
        pu.delivered = true;
        int want = 0, alt = 0;
        expect_cell(reader, *it, want, alt);
        std::string ctx = fmt("reader=%s class=%s", rn.c_str(), CLS_NAME[it->cls]);
        std::string lit = c_escape(it->lit);
        // universal rule
        if (!ret && codes.empty()) {
            std::string sig = ctx;
            if (it->cls == C_DEC && reader <= R_U64 && !isdigit((unsigned char) it->lit[it->lit[0] == '+' || it->lit[0] == '-' ? 1 : 0])) sig += " leading-dot";
            v.fail("reader-false-no-code", sig, fmt("%s given %s \"%s\" returned FALSE without raising any error", rn.c_str(), CLS_NAME[it->cls], lit.c_str()));
            return raised;
        }
        if (want == 0) {
            if (!ret || !codes.empty()) {
                v.fail("wrong-outcome", ctx + " want=ok",
                       fmt("%s given %s \"%s\": expected success, got return %d and code(s) [%s]", rn.c_str(), CLS_NAME[it->cls], lit.c_str(), ret,
                           codes.empty() ? "" : std::to_string(codes[0]).c_str()));
                return raised;
            }
            // delivered whole
            bool isint = false;
            isint = is_dec(it->lit, &isint) && isint;
            uint64_t nd = 0;
            bool nondec = is_nondec(it->lit, &nd);
            long long iv = isint ? strtoll(it->lit.c_str(), nullptr, 10) : 0;
            std::string got, exp;
            bool cmp = false;
            switch (reader) {
                case R_I32:
                    if (isint) cmp = true, got = std::to_string(i32), exp = std::to_string(iv);
                    else if (nondec && nd <= 0x7fffffffULL) cmp = true, got = std::to_string(i32), exp = std::to_string(nd);
                    break;
                case R_U32:
                    if (isint && iv >= 0) cmp = true, got = std::to_string(u32), exp = std::to_string(iv);
                    else if (nondec && nd <= 0xffffffffULL) cmp = true, got = std::to_string(u32), exp = std::to_string(nd);
                    break;
                case R_I64:
                    if (isint) cmp = true, got = std::to_string(i64), exp = std::to_string(iv);
                    else if (nondec && nd <= 0x7fffffffffffffffULL) cmp = true, got = std::to_string(i64), exp = std::to_string(nd);
                    break;
                case R_U64:
                    if (isint && iv >= 0) cmp = true, got = std::to_string(u64), exp = std::to_string(iv);
                    else if (nondec) cmp = true, got = std::to_string(u64), exp = std::to_string(nd);
                    break;
                case R_BOOL:
                    if (it->cls == C_MNEM) cmp = true, got = std::to_string((int) b), exp = (it->lit == "OFF" ? "0" : "1");
                    else if (isint) cmp = true, got = std::to_string((int) b), exp = iv ? "1" : "0";
                    break;
                case R_CHOICE: {
                    cmp = true;
                    got = std::to_string(ch);
                    char c0 = (char) toupper(it->lit[0]);
                    char c1 = it->lit.size() > 1 ? (char) toupper(it->lit[1]) : 0;
                    exp = c0 == 'B' ? "5" : c0 == 'I' ? "6" : c0 == 'E' ? "7" : c0 == 'T' ? "-1" : (c0 == 'M' && c1 == 'W') ? "10" : c0 == 'M' ? "0" : c0 == 'L' ? "2147483647" : c0 == 'D' ? "9" : "-2147483648";
                    break;
                }
                case R_COPYTEXT: {
                    std::string content;
                    is_str(it->lit, &content);
                    if (tbn > content.size()) {
                        // the buffer holds the text and its NUL: delivered whole and terminated
                        cmp = true;
                        got = copied + (nul_ok ? "" : "<no NUL>");
                        exp = content;
                    } else {
                        // too small a buffer: only "a prefix, terminated when a byte remains" is asserted
                        cmp = true;
                        bool prefix = copied.size() <= content.size() && content.compare(0, copied.size(), copied) == 0 && tlen <= tbn && nul_ok;
                        got = prefix ? "prefix" : ("\"" + copied + "\"");
                        exp = "prefix";
                    }
                    break;
                }
                case R_BLOCK: {
                    std::string body;
                    is_blk(it->lit, &body);
                    cmp = true;
                    got = std::string(ptr ? ptr : "", ptr ? plen : 0);
                    exp = body;
                    break;
                }
                case R_CHARS: {
                    if (it->cls == C_NONDEC) break;   // token extent excludes the #H prefix: not asserted
                    cmp = true;
                    got = std::string(ptr ? ptr : "", ptr ? plen : 0);
                    if (it->cls == C_STR) exp = it->lit.substr(1, it->lit.size() - 2);
                    else if (it->cls == C_BLK) is_blk(it->lit, &exp);
                    else exp = it->lit;
                    break;
                }
                case R_RAW: {
                    if (it->cls == C_NONDEC || it->cls == C_BLK) break;
                    cmp = true;
                    got = std::string(raw.ptr ? raw.ptr : "", raw.ptr && raw.len > 0 ? (size_t) raw.len : 0);
                    exp = it->lit;
                    break;
                }
                case R_NUMBER:
                    if (it->cls == C_MNEM) cmp = true, got = std::to_string((int) num.special), exp = "1";
                    else if (isint) cmp = true, got = fmt("%d %.17g", (int) num.special, num.content.value), exp = fmt("0 %.17g", (double) iv);
                    break;
                default: break;
            }
            if (cmp && got != exp)
                v.fail("item-not-whole", ctx, fmt("%s given %s \"%s\" delivered \"%s\", written item is \"%s\"", rn.c_str(), CLS_NAME[it->cls], lit.c_str(),
                                                  c_escape(got).substr(0, 80).c_str(), c_escape(exp).substr(0, 80).c_str()));
            return raised;
        }
        // an error cell: FALSE and exactly that code
        bool ok = !ret && codes.size() == 1 && (codes[0] == want || (alt && codes[0] == alt));
        if (!ok)
            v.fail("wrong-code", ctx + fmt(" want=%d", want),
                   fmt("%s given %s \"%s\": expected FALSE and exactly %d, got return %d and code(s) [%s%s]", rn.c_str(), CLS_NAME[it->cls], lit.c_str(), want, ret,
                       codes.empty() ? "" : std::to_string(codes[0]).c_str(), codes.size() > 1 ? ",..." : ""));
        return raised;
    }

    scpi_result_t run_unit(int uidx) {
        PlannedUnit &pu = units[(size_t) uidx];
        pu.ran = true;
        const HandlerScript &hs = scripts[(size_t) pu.hid % scripts.size()];
        bool malformed = !pu.bad.empty();
        size_t next = 0;
        bool any_error = false;
        for (const ReaderStep &st : hs.steps) {
            if (v.violated) break;
            if (st.reader == R_ARR_I32 || st.reader == R_ARR_DBL) {
                // array reader = up to `cap` scalar reads (3, or 1024 for waveform-style uploads), first as requested, rest optional,
                // stops at the first failure
                int inner = st.reader == R_ARR_I32 ? R_I32 : R_DOUBLE;
                size_t mark = w.errs.size();
                size_t got = 0;
                const size_t cap = st.bufmode > 0 ? 1024 : 3;
                std::unique_ptr<int32_t[]> a32h(new int32_t[cap]);
                std::unique_ptr<double[]> adh(new double[cap]);
                int32_t *a32 = a32h.get();
                double *ad = adh.get();
                scpi_bool_t r = st.reader == R_ARR_I32 ? SCPI_ParamArrayInt32(w.ctx, a32, cap, &got, SCPI_FORMAT_ASCII, st.mandatory)
                                                       : SCPI_ParamArrayDouble(w.ctx, ad, cap, &got, SCPI_FORMAT_ASCII, st.mandatory);
                (void) r;
                if (got > 256) COUNT("probe_more_than_256_parameters_read_in_one_unit");
                std::vector<int> codes = codes_since(mark);
                // model
                std::vector<int> want;
                size_t consumed = 0, okcount = 0;
                if (!malformed) {
                    for (size_t k = 0; k < cap; k++) {
                        if (next + k >= pu.items.size()) {
                            if (k == 0 && st.mandatory) want.push_back(-109);
                            break;
                        }
                        int code, alt;
                        expect_cell(inner, pu.items[next + k], code, alt);
                        consumed++;
                        if (code) {
                            want.push_back(code);
                            break;
                        }
                        okcount++;
                    }
                    bool leading_dot_case = false;
                    for (size_t k = 0; k < consumed && k < cap; k++) {
                        const Item &it = pu.items[next + k];
                        if (inner == R_I32 && it.cls == C_DEC && !isdigit((unsigned char) it.lit[it.lit[0] == '+' || it.lit[0] == '-' ? 1 : 0])) leading_dot_case = true;
                    }
                    if (!v.violated && !leading_dot_case && (codes != want || got != okcount))
                        v.fail("wrong-code", fmt("reader=%s array", READER_NAME[st.reader]),
                               fmt("%s over %zu remaining item(s): read %zu (expected %zu), raised %zu code(s) (first %d), expected %zu (first %d)", READER_NAME[st.reader],
                                   pu.items.size() - next, got, okcount, codes.size(), codes.empty() ? 0 : codes[0], want.size(), want.empty() ? 0 : want[0]));
                    if (!v.violated && !leading_dot_case && st.reader == R_ARR_I32) {
                        for (size_t k = 0; k < okcount; k++) {
                            bool isint = false;
                            isint = is_dec(pu.items[next + k].lit, &isint) && isint;
                            if (isint && a32[k] != (int32_t) strtoll(pu.items[next + k].lit.c_str(), nullptr, 10))
                                v.fail("item-not-whole", "reader=ArrayInt32", fmt("ArrayInt32 element %zu is %d, written item is \"%s\"", k, a32[k], pu.items[next + k].lit.c_str()));
                        }
                    }
                    if (leading_dot_case) {
                        // the scalar rule decides this shape: apply it through the scalar path of the model
                        if (!v.violated && codes.empty() && got < okcount)
                            v.fail("reader-false-no-code", fmt("reader=%s class=DEC leading-dot", READER_NAME[inner]), "integer array reader stopped at a decimal literal without integer digits and raised nothing");
                    }
                    if (consumed) pu.delivered = true;
                } else {
                    if (!v.violated && (got != 0 || !(codes.empty() || (codes.size() == 1 && codes[0] == -109)))) {
                        pu.delivered = true;
                        v.fail("malformed-delivered", fmt("reader=%s", READER_NAME[st.reader]), "array reader was handed parameters from a malformed list");
                    }
                }
                next += consumed;
                if (!codes.empty()) {
                    any_error = true;
                    break;
                }
                continue;
            }
            const Item *it = (!malformed && next < pu.items.size()) ? &pu.items[next] : nullptr;
            bool raised = apply(st.reader, st.mandatory, it, pu, malformed, -1, st.bufmode);
            if (it) next++;
            if (raised) {
                any_error = true;
                break;
            }
            if (!it && !malformed && !st.mandatory) continue;
        }
        scpi_result_t r;
        switch (hs.policy) {
            case 1: r = SCPI_RES_OK; break;
            case 2: r = SCPI_RES_ERR; COUNT("fault_handler_fails_silently"); break;
            case 3:
            case 4:
                SCPI_ErrorPush(w.ctx, (int16_t) hs.own_code);
                COUNT("fault_error_pushed_by_handler");
                if (hs.own_code <= -500 && hs.own_code >= -899) COUNT("probe_handler_pushes_status_event_code");
                r = hs.policy == 3 ? SCPI_RES_ERR : SCPI_RES_OK;
                break;
            default: r = any_error ? SCPI_RES_ERR : SCPI_RES_OK; break;
        }
        w.note(fmt("consumed=%zu of %zu anyerr=%d ret=%d", next, pu.items.size(), any_error, (int) r));
        return r;
    }
};

struct PlannedMsg {
    std::vector<int> unit_idx;
    std::string term = "\n";
};

void execute_c05(const Plan &plan, Verdict &v) {
    WorldCfg cfg;
    cfg.queue = (int) clampl(plan.k("queue", 8), 1, 16);
    cfg.inbuf = (int) clampl(plan.k("inbuf", 1024), 256, 120000);
    cfg.custom_units = plan.k("custom_units", 0) != 0;
    g_custom_units = cfg.custom_units;
    if (cfg.custom_units) COUNT("deployment_with_its_own_unit_table");
    World w(cfg);
    PRun run{w, v, {}, {}, false};
    // ---- decode the plan
    std::vector<PlannedMsg> msgs;
    std::vector<std::vector<int>> calls;   // message indices per input call
    bool in_msg = false;
    std::vector<long> cuts;
    for (const Op &op : plan.ops) {
        if (op.kind == "h") {
            HandlerScript h;
            h.policy = (int) clampl(op.arg(0), 0, 5);
            h.own_code = (int) clampl(op.arg(1, -222), -32768, 32767);
            if (h.own_code == 0 || h.own_code == -350 || h.own_code == -200 || h.own_code == -108) h.own_code = -222;   // codes the accounting itself uses
            run.scripts.push_back(h);
        } else if (op.kind == "rd" && !run.scripts.empty()) {
            run.scripts.back().steps.push_back(ReaderStep{(int) clampl(op.arg(0), 0, R_NREADERS - 1), op.arg(1) != 0, (int) clampl(op.arg(2), 0, 3)});
        } else if (op.kind == "u") {
            if (!in_msg) {
                msgs.push_back(PlannedMsg());
                in_msg = true;
                if (calls.empty()) calls.push_back({});
                calls.back().push_back((int) msgs.size() - 1);
            }
            PlannedUnit pu;
            pu.hid = (int) clampl(op.arg(0), 0, 1000);
            pu.trail = (int) clampl(op.arg(1), 0, 3);
            run.units.push_back(pu);
            msgs.back().unit_idx.push_back((int) run.units.size() - 1);
        } else if (op.kind == "p" && in_msg && op.has_s && !run.units.empty()) {
            Item it;
            it.cls = (int) clampl(op.arg(0), 0, C_NCLS - 1);
            it.ws_before = (int) clampl(op.arg(1), 0, 3);
            it.ws_after = (int) clampl(op.arg(2), 0, 3);
            it.lit = op.s;
            run.units.back().items.push_back(it);
        } else if (op.kind == "pmany" && in_msg && !run.units.empty()) {
            // a long list of small decimal items (a waveform or sequence upload), generated from a seed
            long n = clampl(op.arg(0), 1, 1500);
            uint64_t x = (uint64_t) op.arg(1);
            for (long k = 0; k < n; k++) {
                x = mix64(x + (uint64_t) k);
                Item it;
                it.cls = C_DEC;
                it.lit = std::to_string((long) (x % 2001) - 1000);
                it.ws_before = (x >> 20) % 16 == 0 ? 1 : 0;
                run.units.back().items.push_back(it);
            }
        } else if (op.kind == "pbig" && in_msg && !run.units.empty()) {
            // a block item of more than 65535 bytes, generated from a content seed (no terminator bytes inside, see is_blk)
            size_t blen = (size_t) clampl(op.arg(0), 1, 100000);
            uint64_t x = (uint64_t) op.arg(1);
            std::string body;
            body.reserve(blen);
            for (size_t k = 0; k < blen; k++) {
                x = mix64(x);
                char c = (char) (x & 0xff);
                if (c == '\n' || c == '\r') c = '.';
                body += c;
            }
            std::string len = std::to_string(blen);
            Item it;
            it.cls = C_BLK;
            it.lit = "#" + std::to_string(len.size()) + len + body;
            run.units.back().items.push_back(it);
            COUNT("probe_block_item_of_64k_or_more");
        } else if (op.kind == "bad" && in_msg && op.has_s && !run.units.empty()) {
            run.units.back().bad = op.s;
        } else if (op.kind == "endmsg") {
            if (in_msg) {
                static const char *t[] = {"\n", "\r\n", "\r"};
                msgs.back().term = t[clampl(op.arg(0), 0, 2)];
                in_msg = false;
            }
        } else if (op.kind == "over") {
            calls.push_back({-1});   // an oversize chunk delivered as a call of its own
            calls.push_back({});
        } else if (op.kind == "call") {
            calls.push_back({});
        } else if (op.kind == "cuts") {
            cuts = op.a;
        }
    }
    if (run.scripts.empty() || run.units.empty() || run.units.size() > 60) {
        v.trace_hash = 1;
        return;
    }
    // ---- validate labels; a malformed fragment is only meaningful on the last unit of its message
    for (auto &m : msgs) {
        for (size_t k = 0; k < m.unit_idx.size(); k++) {
            PlannedUnit &pu = run.units[(size_t) m.unit_idx[k]];
            for (auto &it : pu.items) {
                std::string a, b;
                bool ok = false;
                switch (it.cls) {
                    case C_DEC: ok = is_dec(it.lit); break;
                    case C_DECSUF: ok = split_decsuf(it.lit, a, b) && b != "e" && b != "E"; break;
                    case C_NONDEC: ok = is_nondec(it.lit); break;
                    case C_MNEM: ok = find_mnem(it.lit) != nullptr; break;
                    case C_STR: ok = is_str(it.lit); break;
                    case C_BLK: ok = is_blk(it.lit); break;
                    case C_EXPR: ok = is_expr(it.lit); break;
                }
                // suffixes must be from the two tables so that known/unknown is by construction
                if (ok && it.cls == C_DECSUF) {
                    bool listed = false;
                    for (auto s : KNOWN_SUFFIX) listed |= b == s;
                    for (auto s : UNKNOWN_SUFFIX) listed |= b == s;
                    for (auto s : CUSTOM_SUFFIX) listed |= b == s;
                    ok = listed;
                }
                if (!ok) pu.valid = false;
            }
            if (!pu.bad.empty()) {
                static const char *frags_empty[] = {"@", " \"", " 1 2", ",1", "1,,2", "1,", "$", " 'x", "1 ,", " #15ab", "#210xyz", "1,#15a"};
                static const char *frags_after[] = {"@", "$", ",", " ,", " \"", " 'x", ",#15ab", ", #210xyz"};
                bool listed = false;
                if (pu.items.empty())
                    for (auto f : frags_empty) listed |= pu.bad == f;
                else
                    for (auto f : frags_after) listed |= pu.bad == f;
                if (!listed || k + 1 != m.unit_idx.size()) pu.valid = false;
            }
            if (!pu.valid) {
                v.trace_hash = 2;   // inert plan (labels and literals disagree): nothing is asserted
                return;
            }
        }
    }
    // an unterminated-quote fragment swallows whatever follows it in the same call (a later quote would complete the string):
    // it is only a malformed list when it ends the last message of its input call
    for (auto &call : calls) {
        if (call.size() == 1 && call[0] == -1) continue;
        for (size_t ci2 = 0; ci2 < call.size(); ci2++) {
            const PlannedMsg &m = msgs[(size_t) call[ci2]];
            if (m.unit_idx.empty()) continue;
            const PlannedUnit &pu = run.units[(size_t) m.unit_idx.back()];
            bool quote_frag = pu.bad == " \"" || pu.bad == " 'x" || pu.bad.find('#') != std::string::npos;   // open string / incomplete block swallow what follows
            if (quote_frag && ci2 + 1 != call.size()) {
                v.trace_hash = 2;
                return;
            }
        }
    }
    for (size_t i = 0; i < run.units.size(); i++) {
        if (run.scripts[(size_t) run.units[i].hid % run.scripts.size()].policy == 5)
            w.add_null_command("U" + std::to_string(i));   // a defined header without a callback
        else
            w.add_command("U" + std::to_string(i), [&run, i](World &) { return run.run_unit((int) i); });
    }
    w.seal();

    // per-unit post-handler accounting
    w.observer = [&](World &ww, const char *where) {
        if (v.violated || strcmp(where, "unit-end")) return;
        UnitRec *u = ww.unit();
        if (u && u->invocations == 0) {
            // units of NULL-callback entries: nothing runs, surplus parameters are still accounted for
            size_t a = 0;
            while (a < u->text.size() && (u->text[a] == ' ' || u->text[a] == '\t')) a++;
            if (a < u->text.size() && u->text[a] == 'U' && a + 1 < u->text.size() && isdigit((unsigned char) u->text[a + 1])) {
                size_t idx = (size_t) strtoul(u->text.c_str() + a + 1, nullptr, 10);
                if (idx < run.units.size() && run.units[idx].bad.empty() && run.scripts[(size_t) run.units[idx].hid % run.scripts.size()].policy == 5) {
                    PlannedUnit &npu = run.units[idx];
                    npu.ran = true;
                    COUNT("probe_null_callback_unit");
                    int n108 = 0, nother = 0;
                    for (int e : u->errs) {
                        if (e == -108) n108++;
                        else if (e != 0 && e != -350) nother++;
                    }
                    int want108 = npu.items.empty() ? 0 : 1;
                    if (n108 != want108 || nother)
                        v.fail("accounting-108", fmt("null-callback have=%d want=%d other=%d", n108, want108, nother),
                               fmt("unit \"%s\" of an entry without callback: %zu unread item(s) -> expected %d x -108 and nothing else, saw %d x -108 and %d other code(s)",
                                   c_escape(u->text).substr(0, 80).c_str(), npu.items.size(), want108, n108, nother));
                }
            }
            return;
        }
        if (!u || u->invocations != 1 || u->tag < 0 || u->tag >= (int) run.units.size()) return;
        PlannedUnit &pu = run.units[(size_t) u->tag];
        if (!pu.bad.empty()) return;
        // notes: consumed=N of M anyerr=E ret=R
        size_t consumed = 0, total = 0;
        int anyerr = 0, ret = 0;
        size_t p = u->notes.rfind("consumed=");
        if (p == std::string::npos) return;
        sscanf(u->notes.c_str() + p, "consumed=%zu of %zu anyerr=%d ret=%d", &consumed, &total, &anyerr, &ret);
        const HandlerScript &hs = run.scripts[(size_t) pu.hid % run.scripts.size()];
        int n108 = 0, n200 = 0, nother_before = 0;
        for (int e : u->errs) {
            if (e == -108) n108++;
            else if (e == -200) n200++;
            else if (e != 0 && e != -350) nother_before++;
        }
        bool pushed_own = hs.policy == 3 || hs.policy == 4;
        bool code_in_handler = anyerr || pushed_own;
        int want200 = (ret != SCPI_RES_OK && !code_in_handler) ? 1 : 0;
        int want108 = (consumed < total && !code_in_handler && !want200) ? 1 : 0;
        if (n200 != want200)
            v.fail("accounting-200", fmt("have=%d want=%d", n200, want200),
                   fmt("unit \"%s\": handler returned %d, codes raised inside it: %d -> expected %d x -200, saw %d", c_escape(u->text).substr(0, 80).c_str(), ret, code_in_handler, want200, n200));
        else if (n108 != want108)
            v.fail("accounting-108", fmt("have=%d want=%d", n108, want108),
                   fmt("unit \"%s\": %zu of %zu items read, handler ok=%d -> expected %d x -108, saw %d", c_escape(u->text).substr(0, 80).c_str(), consumed, total, !code_in_handler && !want200, want108, n108));
        if (want108) COUNT("probe_surplus_parameters");
        if (want200) COUNT("probe_silent_handler_failure");
    };

    // ---- deliver
    auto unit_text = [&](const PlannedUnit &pu, int idx) {
        std::string t = "U" + std::to_string(idx);
        for (size_t k = 0; k < pu.items.size(); k++) {
            const Item &it = pu.items[k];
            auto ws = [](int n) { return n == 3 ? std::string("\t") : std::string((size_t) n, ' '); };
            if (k == 0)
                t += " " + ws(it.ws_after);
            else
                t += ws(it.ws_before) + "," + ws(it.ws_after);
            if (k > 0 && it.ws_before) COUNT("probe_blank_before_comma");
            t += it.lit;
        }
        if (!pu.bad.empty()) {
            if (pu.items.empty() && pu.bad[0] != ' ') t += " ";
            t += pu.bad;
        } else if (pu.trail) {
            t += std::string((size_t) pu.trail, ' ');
            COUNT("probe_trailing_blanks");
        }
        return t;
    };
    uint64_t clock = 0;
    size_t ci = 0;
    for (auto &call : calls) {
        if (v.violated) break;
        if (call.size() == 1 && call[0] == -1) {
            // more bytes than the buffer holds in one call: -363, buffer invalidated, FALSE returned
            size_t e0 = w.errs.size();
            bool ret = w.input(std::string((size_t) cfg.inbuf + 5, 'Z'));
            int n363 = 0, nother = 0;
            for (size_t e = e0; e < w.errs.size(); e++) {
                if (w.errs[e].code == -363) n363++;
                else if (w.errs[e].code != 0 && w.errs[e].code != -350) nother++;
            }
            COUNT("fault_oversize_chunk");
            if (ret || n363 != 1 || nother || w.ctx->buffer.position != 0)
                v.fail("return-value", fmt("overrun ret=%d n363=%d other=%d pos=%zu", ret, n363, nother, w.ctx->buffer.position),
                       fmt("a call that overran the input buffer returned %d, raised %d x -363 and %d other code(s), left %zu bytes buffered", ret, n363, nother, w.ctx->buffer.position));
            continue;
        }
        std::string data;
        for (int mi : call) {
            const PlannedMsg &m = msgs[(size_t) mi];
            for (size_t k = 0; k < m.unit_idx.size(); k++) {
                if (k) data += ";";
                data += unit_text(run.units[(size_t) m.unit_idx[k]], m.unit_idx[k]);
            }
            data += m.term;
        }
        if (data.empty()) continue;
        size_t calls_before = w.calls.size();
        if (call.size() >= 2) COUNT("probe_several_messages_in_one_call");
        // one call if it fits, otherwise (or when cuts are given) segmented
        size_t pos = 0;
        while (pos < data.size() && !v.violated) {
            long n = cuts.empty() ? (long) data.size() : cuts[ci++ % cuts.size()];
            if (n < 1) n = 1;
            if ((size_t) n > data.size() - pos) n = (long) (data.size() - pos);
            size_t c0 = w.calls.size();
            bool ret = w.input(data.data() + pos, (int) n);
            pos += (size_t) n;
            const CallRec &cr = w.calls[c0];
            // return value: FALSE <=> overrun or the last message executed in the call raised an error
            bool want = true;
            if (cr.overrun) {
                want = false;
                COUNT("fault_oversize_chunk");
            } else if (cr.n_msgs > 0) {
                const MsgRec &last = w.msgs[(size_t) cr.first_msg + (size_t) cr.n_msgs - 1];
                for (int e : last.errs)
                    if (e != 0) want = false;
            }
            if (ret != want)
                v.fail("return-value", fmt("have=%d want=%d overrun=%d msgs=%d", ret, want, cr.overrun, cr.n_msgs),
                       fmt("input call of %d bytes returned %d; it %s and executed %d message(s), the last of which raised %s", cr.len, ret,
                           cr.overrun ? "overran the buffer" : "did not overrun", cr.n_msgs, want ? "no error" : "an error"));
        }
        if (w.ctx->buffer.position > 0) {
            w.flush_input();   // an unterminated string/block fragment swallowed the terminator: the idle timer completes the message
            COUNT("fault_idle_flush_with_pending");
        }
        clock += data.size();
        // every unit with a well-formed list names a defined command: its handler must have run (a well-formed item that the
        // lexer rejects would otherwise go unnoticed, because then no reader is ever called)
        {
            bool call_overran = false;
            for (size_t cidx = calls_before; cidx < w.calls.size(); cidx++) call_overran |= w.calls[cidx].overrun;
            for (int mi : call) {
                const PlannedMsg &m = msgs[(size_t) mi];
                for (int ui2 : m.unit_idx) {
                    const PlannedUnit &pu = run.units[(size_t) ui2];
                    if (!pu.bad.empty() || v.violated || call_overran) continue;
                    if (!pu.ran)
                        v.fail("unit-not-run", fmt("unit=U%d items=%zu", ui2, pu.items.size()),
                               fmt("unit \"%s\" has a well-formed parameter list but its handler never ran", c_escape(unit_text(pu, ui2)).substr(0, 120).c_str()));
                }
            }
        }
        // malformed units: >= 1 command error from the malformed unit to the end of its message
        for (int mi : call) {
            const PlannedMsg &m = msgs[(size_t) mi];
            if (m.unit_idx.empty()) continue;
            const PlannedUnit &pu = run.units[(size_t) m.unit_idx.back()];
            if (pu.bad.empty() || v.violated) continue;
            COUNT("probe_malformed_list");
            // find the executed message that contains this unit's header
            std::string hdr = "U" + std::to_string(m.unit_idx.back());
            bool found = false, cmderr = false;
            for (auto &em : w.msgs) {
                bool here = false;
                for (auto &eu : em.units) {
                    if (!here && eu.text.find(hdr) != std::string::npos && (eu.text.find(hdr) == 0 || !isalnum((unsigned char) eu.text[eu.text.find(hdr) - 1]))) {
                        size_t e = eu.text.find(hdr) + hdr.size();
                        if (e >= eu.text.size() || !isdigit((unsigned char) eu.text[e])) here = true;
                    }
                    if (here)
                        for (int e : eu.errs)
                            if (e <= -100 && e >= -199) cmderr = true;
                }
                found |= here;
            }
            if (found && !cmderr)
                v.fail("malformed-silent", fmt("frag=%s items=%zu", c_escape(pu.bad).c_str(), pu.items.size()),
                       fmt("unit %s with malformed parameter list \"%s\" raised no command error (-1xx); handler ran: %d", hdr.c_str(), c_escape(unit_text(pu, m.unit_idx.back())).c_str(), pu.ran));
        }
    }
    w.observer = nullptr;
    v.trace_hash = w.hash();
    v.nontrivial = w.nontrivial;
    v.sim_ms = clock;
}

// ---------------------------------------------------------------- generation
std::string gen_lit(Rng &r, int cls, bool avoid_dot) {
    switch (cls) {
        case C_DEC: {
            static const char *ints[] = {"0", "1", "12", "-5", "+7", "007", "2147483647", "-2147483648", "99999"};
            static const char *reals[] = {"1.5", "-2.25", "1e3", "2.5E-3", "10.", "+1.E2", "0.5", "1 E3", "1.5E -3", "2 e +1", "-1 e 3", "7\tE\t2"};
            static const char *dots[] = {".5", "+.5", "-.25", ".5e1"};
            int k = (int) r.below(avoid_dot ? 8 : 10);
            if (r.chance(1, 20)) {
                // a literal far longer than any value needs: hundreds of leading zeros, then the value
                std::string z((size_t) r.range(200, 340), '0');
                return (r.chance(1, 4) ? "-" : "") + z + std::to_string((long) r.below(100000));
            }
            if (k < 5) return ints[r.below(9)];
            if (k < 8) return reals[r.below(sizeof reals / sizeof reals[0])];
            return dots[r.below(4)];
        }
        case C_DECSUF: {
            static const char *nums[] = {"10", "1.5", "-3", "2e3", "0.25"};
            std::string s = nums[r.below(5)];
            if (r.chance(1, 2)) s += " ";
            if (r.chance(1, 6)) s += CUSTOM_SUFFIX[r.below(sizeof CUSTOM_SUFFIX / sizeof CUSTOM_SUFFIX[0])];
            else if (r.chance(3, 4)) s += KNOWN_SUFFIX[r.below(sizeof KNOWN_SUFFIX / sizeof KNOWN_SUFFIX[0])];
            else s += UNKNOWN_SUFFIX[r.below(sizeof UNKNOWN_SUFFIX / sizeof UNKNOWN_SUFFIX[0])];
            return s;
        }
        case C_NONDEC: {
            static const char *v[] = {"#H1F", "#hff", "#Q17", "#B101", "#b0", "#H7FFFFFFF", "#HFFFFFFFF", "#Q777"};
            return v[r.below(8)];
        }
        case C_MNEM: return MNEMS[r.below(sizeof MNEMS / sizeof MNEMS[0])].lit;
        case C_STR: {
            static const char *v[] = {"'abc'", "\"a\"\"b\"", "''", "\"x,y;z\"", "'it''s'", "\" \"", "\"#12ab\"", "'(1)'"};
            return v[r.below(8)];
        }
        case C_BLK: {
            static const char *v[] = {"#13abc", "#10", "#205hello", "#14a,b;", "#11\"", "#3003x,y", "#9000000003abc", "#800000000"};
            return v[r.below(sizeof v / sizeof v[0])];
        }
        default: {
            static const char *v[] = {"(1,2)", "(@1!2)", "(1:3)", "()", "(@1,2:4)"};
            return v[r.below(5)];
        }
    }
}

void generate_c05(Rng &r, const GenOpts &g, Plan &p) {
    bool avoid_dot = g.avoids("dec_leading_dot");
    bool avoid_ws = g.avoids("blank_before_comma");
    bool avoid_trailing = g.avoids("trailing_comma");
    bool avoid_number_type = g.avoids("number_wrong_type");
    p.knob["queue"] = r.range(1, 8);
    if (r.chance(1, 3)) p.knob["custom_units"] = 1;
    if (r.chance(1, 3000)) {
        // one unit with a block parameter beyond 16-bit lengths
        long blen = r.chance(1, 2) ? 65536 + r.range(-2, 30) : r.range(40000, 90000);
        p.knob["inbuf"] = blen + 400;
        int rd = (r.chance(1, 3) ? R_BLOCK : (r.chance(1, 2) ? R_CHARS : R_RAW));
        p.ops.push_back(Op("h", {0, -222}));
        p.ops.push_back(Op("rd", {rd, 1}));
        if (r.chance(1, 2)) p.ops.push_back(Op("rd", {R_I32, 1}));
        p.ops.push_back(Op("u", {0, 0}));
        p.ops.push_back(Op("pbig", {blen, (long) r.below(1000000)}));
        if (r.chance(1, 2)) p.ops.push_back(Op("p", {C_DEC, 0, 0}, "7"));
        p.ops.push_back(Op("endmsg", {(long) r.below(3)}));
        return;
    }
    if (r.chance(1, 400)) {
        // one unit with a list of hundreds of items, read by an array reader with room for all of them (and some more after it)
        long n = r.chance(1, 2) ? r.range(250, 264) : r.range(100, 900);
        p.knob["inbuf"] = 8000;
        p.ops.push_back(Op("h", {0, -222}));
        p.ops.push_back(Op("rd", {r.chance(1, 2) ? R_ARR_I32 : R_ARR_DBL, 1, 1}));
        if (r.chance(1, 2)) p.ops.push_back(Op("rd", {R_I32, 0, 0}));
        p.ops.push_back(Op("u", {0, 0}));
        p.ops.push_back(Op("pmany", {n, (long) r.below(1000000)}));
        p.ops.push_back(Op("endmsg", {(long) r.below(3)}));
        return;
    }
    long nh = r.range(1, 4);
    std::vector<std::vector<ReaderStep>> sigs;
    for (long h = 0; h < nh; h++) {
        int policy = (int) (r.chance(2, 3) ? 0 : r.range(1, 5));
        static const long own[] = {-222, -201, -100, -310, -400, -500, -599, -600, -700, -800, -899, -900, 1, 100, 32767, -1, -99};
        p.ops.push_back(Op("h", {policy, own[r.below(sizeof own / sizeof own[0])]}));
        long ns = r.range(0, 4);
        std::vector<ReaderStep> sig;
        bool seen_optional = false;
        for (long s = 0; s < ns; s++) {
            int rd = (int) r.below(R_NREADERS);
            bool mand = seen_optional ? false : r.chance(2, 3);
            if (!mand) seen_optional = true;
            long bufmode = (rd == R_COPYTEXT && r.chance(1, 2)) ? r.range(1, 3) : 0;
            if (bufmode == 3 && r.chance(1, 2)) bufmode = 1;
            if ((rd == R_ARR_I32 || rd == R_ARR_DBL) && r.chance(1, 4)) bufmode = 1;   // room for 1024 elements instead of 3
            sig.push_back(ReaderStep{rd, mand, (int) bufmode});
            p.ops.push_back(Op("rd", {rd, mand ? 1 : 0, bufmode}));
        }
        sigs.push_back(sig);
    }
    long ncalls = r.chance(2, 3) ? 1 : r.range(2, 3);
    for (long c = 0; c < ncalls; c++) {
        if (c) p.ops.push_back(Op(r.chance(1, 6) ? "over" : "call"));
        long nm = r.chance(2, 3) ? 1 : r.range(2, 3);
        for (long m = 0; m < nm; m++) {
            long nu = r.chance(1, 2) ? 1 : r.range(2, 4);
            for (long u = 0; u < nu; u++) {
                long hid = (long) r.below((uint64_t) nh);
                p.ops.push_back(Op("u", {hid, r.chance(1, 5) ? r.range(1, 2) : 0}));
                const auto &sig = sigs[(size_t) hid];
                long ni;
                switch (r.below(6)) {
                    case 0: ni = r.range(0, 5); break;
                    case 1: ni = (long) sig.size() + 1; break;
                    case 2: ni = std::max<long>(0, (long) sig.size() - 1); break;
                    default: ni = (long) sig.size(); break;
                }
                if (ni > 5) ni = 5;
                for (long k = 0; k < ni; k++) {
                    // mostly the class the reader wants, sometimes any class
                    int cls = (int) r.below(C_NCLS);
                    if (k < (long) sig.size() && r.chance(2, 3)) {
                        switch (sig[(size_t) k].reader) {
                            case R_NUMBER: {
                                static const int nc[] = {C_DEC, C_DECSUF, C_MNEM, C_NONDEC};
                                cls = nc[r.below(4)];
                                break;
                            }
                            case R_BOOL: cls = r.chance(1, 2) ? C_MNEM : C_DEC; break;
                            case R_CHOICE: cls = C_MNEM; break;
                            case R_COPYTEXT: cls = C_STR; break;
                            case R_BLOCK: cls = C_BLK; break;
                            case R_CHARS:
                            case R_RAW: break;
                            default: cls = r.chance(1, 4) ? C_NONDEC : C_DEC; break;
                        }
                    }
                    if (avoid_number_type && k < (long) sig.size() && sig[(size_t) k].reader == R_NUMBER && (cls == C_STR || cls == C_BLK || cls == C_EXPR)) cls = C_DEC;
                    long wsb = (!avoid_ws && r.chance(1, 6)) ? r.range(1, 3) : 0;
                    long wsa = r.chance(1, 4) ? r.range(1, 3) : 0;
                    p.ops.push_back(Op("p", {cls, wsb, wsa}, gen_lit(r, cls, avoid_dot)));
                }
                if (u == nu - 1 && r.chance(1, 8)) {
                    static const char *frags_empty[] = {"@", " \"", " 1 2", ",1", "1,,2", "1,", "$", " 'x", "1 ,", " #15ab", "#210xyz", "1,#15a"};
                    static const char *frags_after[] = {"@", "$", ",", " ,", " \"", " 'x", ",#15ab", ", #210xyz"};
                    std::string f = ni == 0 ? frags_empty[r.below(12)] : frags_after[r.below(8)];
                    if ((f == " \"" || f == " 'x" || f.find('#') != std::string::npos) && m != nm - 1) f = "@";
                    bool trailing = f == "1," || f == "," || f == " ," || f == "1 ,";
                    if (!(trailing && avoid_trailing)) p.ops.push_back(Op("bad", {}, f));
                }
            }
            p.ops.push_back(Op("endmsg", {(long) r.below(3)}));
        }
    }
    if (r.chance(1, 6)) {
        std::vector<long> c;
        long nc = r.range(1, 3);
        for (long j = 0; j < nc; j++) c.push_back(r.chance(1, 3) ? 1 : r.range(1, 20));
        p.ops.push_back(Op("cuts", c));
    }
}

const Property C05 = {
    "C05",
    "Wrong, missing or surplus parameters raise the right error, never mis-delivered",
    {"malloc"},
    generate_c05,
    execute_c05,
    {"probe_absent_mandatory", "probe_absent_optional", "probe_surplus_parameters", "probe_silent_handler_failure", "probe_blank_before_comma", "probe_malformed_list",
     "probe_several_messages_in_one_call", "fault_handler_fails_silently", "fault_error_pushed_by_handler", "probe_handler_pushes_status_event_code", "probe_null_callback_unit", "probe_trailing_blanks", "probe_block_item_of_64k_or_more", "probe_text_buffer_exact_fit", "probe_text_buffer_too_small"},
    "1..3 input calls of 1..3 messages of 1..4 units; every unit pairs one of 1..4 seeded handler signatures (0..4 steps drawn from 15 readers incl. arrays, mandatory/"
    "optional, four return policies) with a list of 0..5 items whose class and value are known by construction (DEC incl. .5 forms, DEC+suffix known/unknown, #H/#Q/#B, "
    "mnemonics in/outside the bool/choice/special lists, both quote styles, blocks, expressions), blanks on either side of commas, malformed fragments on the last unit; "
    "per reader call the return value, the raised codes and the delivered value/extent are compared with table A.1, per unit the -108/-200 accounting, per input call the "
    "return value. Also: the application's own unit table (mixed-case and compound names), compound/exponent suffixes, choice tags -1/0/INT32 extremes and lower-case names, blanks inside exponents, literals with hundreds of leading zeros, lists of 100..900 items read by array readers with room for 1024, blocks >= 64 KiB, exact-fit text buffers, entries without callback. distinct_nontrivial = distinct canonical trace hashes.",
};
PropertyRegistrar r05(&C05);

}   // namespace
