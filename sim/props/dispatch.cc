// C02: each message unit runs exactly the first command matching its effective header
// (independent composer + pattern-language acceptor; histories, segmentation and -113 allocation faults).
#include "../world.h"

namespace {

// ---------------------------------------------------------------- independent acceptor
struct Kw {
    std::string shortf, longf;   // upper case
    bool optional = false, numeric = false;
};
struct Pat {
    bool common = false;
    bool query = false;
    std::string common_name;   // upper case, without '*' and '?'
    std::vector<Kw> kws;
    bool ok = false;
};

std::string upper(std::string s) {
    for (auto &c : s) c = (char) toupper((unsigned char) c);
    return s;
}

Pat parse_pattern(const std::string &p) {
    Pat r;
    std::string s = p;
    if (s.empty()) return r;
    if (s.back() == '?') {
        r.query = true;
        s.pop_back();
    }
    if (!s.empty() && s[0] == '*') {
        r.common = true;
        r.common_name = upper(s.substr(1));
        r.ok = !r.common_name.empty();
        return r;
    }
    size_t i = 0;
    bool first = true;
    while (i < s.size()) {
        Kw k;
        if (s[i] == '[') {
            k.optional = true;
            i++;
            if (i < s.size() && s[i] == ':') i++;
            else if (!first) return r;
        } else if (s[i] == ':') {
            i++;
        } else if (!first) {
            return r;
        }
        size_t st = i;
        while (i < s.size() && (isalnum((unsigned char) s[i]) || s[i] == '_')) i++;
        std::string name = s.substr(st, i - st);
        if (name.empty()) return r;
        if (i < s.size() && s[i] == '#') {
            k.numeric = true;
            i++;
        }
        if (k.optional) {
            if (i >= s.size() || s[i] != ']') return r;
            i++;
        }
        size_t sp = 0;
        while (sp < name.size() && !islower((unsigned char) name[sp])) sp++;
        k.shortf = upper(name.substr(0, sp));
        k.longf = upper(name);
        if (k.shortf.empty()) k.shortf = k.longf;
        r.kws.push_back(k);
        first = false;
    }
    for (auto &k : r.kws) r.ok |= !k.optional;
    return r;
}

bool kw_accepts(const Kw &k, const std::string &m) {
    std::string u = upper(m);
    if (k.numeric) {
        size_t e = u.size();
        while (e > 0 && isdigit((unsigned char) u[e - 1])) e--;
        std::string base = u.substr(0, e);
        return base == k.shortf || base == k.longf;
    }
    return u == k.shortf || u == k.longf;
}

bool match_rec(const Pat &p, size_t pi, const std::vector<std::string> &mn, size_t mi) {
    if (mi == mn.size()) {
        for (size_t k = pi; k < p.kws.size(); k++)
            if (!p.kws[k].optional) return false;
        return true;
    }
    if (pi == p.kws.size()) return false;
    if (kw_accepts(p.kws[pi], mn[mi]) && match_rec(p, pi + 1, mn, mi + 1)) return true;
    if (p.kws[pi].optional) return match_rec(p, pi + 1, mn, mi);
    return false;
}

bool accepts(const Pat &p, const std::string &header) {
    std::string h = header;
    if (h.empty()) return false;
    bool q = h.back() == '?';
    if (q) h.pop_back();
    if (q != p.query) return false;
    if (p.common) return !h.empty() && h[0] == '*' && upper(h.substr(1)) == p.common_name;
    if (!h.empty() && h[0] == '*') return false;
    if (!h.empty() && h[0] == ':') h.erase(0, 1);
    std::vector<std::string> mn;
    size_t st = 0;
    for (size_t i = 0; i <= h.size(); i++) {
        if (i == h.size() || h[i] == ':') {
            std::string m = h.substr(st, i - st);
            if (m.empty()) return false;
            mn.push_back(m);
            st = i + 1;
        }
    }
    return match_rec(p, 0, mn, 0);
}

// canonical spelling of a pattern: every keyword in long form, no digits
std::string canonical_spelling(const Pat &p) {
    if (p.common) return "*" + p.common_name + (p.query ? "?" : "");
    std::string s;
    for (size_t i = 0; i < p.kws.size(); i++) {
        if (i) s += ":";
        s += p.kws[i].longf;
    }
    return s + (p.query ? "?" : "");
}

// ---------------------------------------------------------------- independent composer
std::string effective_header(const std::string &prev_eff, bool have_prev, const std::string &written) {
    if (written.empty()) return written;
    if (written[0] == ':' || written[0] == '*') return written;
    if (!have_prev) return written;
    if (!prev_eff.empty() && prev_eff[0] == '*') return written;
    size_t c = prev_eff.rfind(':');
    if (c == std::string::npos) return written;
    return prev_eff.substr(0, c + 1) + written;
}

struct PUnit {
    std::string written;   // header as written
    std::string text;      // whole unit incl. parameters
};

bool header_char(char c) { return isalnum((unsigned char) c) || c == '_' || c == ':' || c == '*' || c == '?'; }

void execute_c02(const Plan &plan, Verdict &v) {
    WorldCfg cfg;
    cfg.queue = 16;
    cfg.inbuf = (int) clampl(plan.k("inbuf", 400), 80, 800);
    g_alloc = AllocCtl();
    {
        World w(cfg);
        // entries 0..nA-1 form the table the context starts with, entries nA.. (ops `pat2`) a second table; an entry whose
        // second argument is set has a handler that points the context at the other table (SYSTem:LANGuage style)
        std::vector<Pat> pats;
        std::vector<std::string> patstr;
        std::vector<bool> is_null;
        std::vector<bool> switches;
        std::vector<int> table_of;
        for (int pass = 0; pass < 2; pass++)
        for (const Op &op : plan.ops)
            if (op.kind == (pass ? "pat2" : "pat") && op.has_s && patstr.size() < 400) {
                is_null.push_back(op.arg(0) != 0);   // entry with a NULL callback: a defined header with no action
                switches.push_back(op.arg(1) != 0 && op.arg(0) == 0);
                table_of.push_back(pass);
                Pat p = parse_pattern(op.s);
                if (!p.ok) {
                    v.trace_hash = 2;   // not a pattern of the supported grammar: inert plan
                    g_alloc = AllocCtl();
                    return;
                }
                // the property's pattern class: no keyword of a pattern can be mistaken for another one of the same pattern
                for (size_t a = 0; a < p.kws.size(); a++)
                    for (size_t b = a + 1; b < p.kws.size(); b++)
                        if (p.kws[a].shortf == p.kws[b].shortf || p.kws[a].longf == p.kws[b].longf || p.kws[a].shortf == p.kws[b].longf || p.kws[a].longf == p.kws[b].shortf) p.ok = false;
                if (!p.ok) {
                    v.trace_hash = 2;
                    g_alloc = AllocCtl();
                    return;
                }
                pats.push_back(p);
                patstr.push_back(op.s);
            }
        if (pats.empty() || table_of[0] != 0) {
            v.trace_hash = 2;
            g_alloc = AllocCtl();
            return;
        }
        std::vector<int> seen_tags;
        int cur_table = 0;   // which table the context points at (model side; toggled by the handlers below)
        bool have_alt = table_of.back() == 1;
        for (size_t i = 0; i < pats.size(); i++) {
            std::string canon = canonical_spelling(pats[i]);
            w.filling_alt = table_of[i] == 1;
            if (is_null[i]) {
                w.add_null_command(patstr[i]);
                continue;
            }
            bool sw = switches[i] && have_alt;
            w.add_command(patstr[i], [&w, &v, i, canon, sw, &cur_table](World &ww) {
                if (sw) {
                    cur_table ^= 1;
                    ww.use_alt_table(cur_table == 1);
                    COUNT("fault_handler_switches_command_table");
                }
                // the handler can recover the matched entry: tag and pattern test
                if (!v.violated && SCPI_CmdTag(ww.ctx) != (int32_t) i)
                    v.fail("tag-mismatch", fmt("tag=%d want=%zu", (int) SCPI_CmdTag(ww.ctx), i), "SCPI_CmdTag does not identify the running table entry");
                if (!v.violated && !SCPI_IsCmd(ww.ctx, canon.c_str()))
                    v.fail("iscmd-false", fmt("entry=%zu", i), fmt("SCPI_IsCmd(\"%s\") is false inside the handler of that pattern", canon.c_str()));
                (void) w;
                return SCPI_RES_OK;
            });
        }
        w.filling_alt = false;
        w.seal();

        std::vector<long> cuts;
        size_t ci = 0;
        uint64_t clock = 0;
        for (const Op &op : plan.ops) {
            if (v.violated) break;
            if (op.kind == "cuts") {
                cuts = op.a;
                ci = 0;
                continue;
            }
            if (op.kind == "allocfail") {
                g_alloc.fail_countdown = clampl(op.arg(0), 0, 6);
                continue;
            }
            if (op.kind == "over") {
                w.input(std::string((size_t) cfg.inbuf + 3, 'Z'));
                COUNT("fault_oversize_chunk");
                int guard = 0;
                while (SCPI_ErrorCount(w.ctx) > 0 && guard++ < 40) {
                    int c;
                    std::string t;
                    bool h;
                    w.fw_pop(c, t, h);
                }
                continue;
            }
            if (op.kind == "junk" && op.has_s) {
                // a preceding broken message: flushed by the idle timer
                w.input(op.s.substr(0, (size_t) cfg.inbuf - 2));
                w.flush_input();
                COUNT("fault_broken_predecessor");
                // drain whatever it raised
                int guard = 0;
                while (SCPI_ErrorCount(w.ctx) > 0 && guard++ < 40) {
                    int c;
                    std::string t;
                    bool h;
                    w.fw_pop(c, t, h);
                }
                continue;
            }
            if (op.kind != "msg" || !op.has_s) continue;
            // ---- parse the planned message: units separated by ';', header then optional simple parameters
            std::string body = op.s;
            std::string term;
            while (!body.empty() && (body.back() == '\n' || body.back() == '\r')) {
                term.insert(term.begin(), body.back());
                body.pop_back();
            }
            bool wellformed = !term.empty();
            std::vector<PUnit> units;
            {
                size_t st = 0;
                for (size_t i = 0; i <= body.size(); i++) {
                    if (i == body.size() || body[i] == ';') {
                        PUnit u;
                        u.text = body.substr(st, i - st);
                        size_t a = 0;
                        while (a < u.text.size() && (u.text[a] == ' ' || u.text[a] == '\t')) a++;
                        size_t b = a;
                        while (b < u.text.size() && header_char(u.text[b])) b++;
                        u.written = u.text.substr(a, b - a);
                        // parameters: blanks then digits and commas only
                        for (size_t k = b; k < u.text.size(); k++)
                            if (!(isdigit((unsigned char) u.text[k]) || u.text[k] == ',' || u.text[k] == ' ')) wellformed = false;
                        if (b < u.text.size() && u.text[b] != ' ') wellformed = false;
                        if (u.written.empty()) wellformed = false;
                        // header syntax: optional ':' then mnemonics (alpha first) separated by ':', or '*' mnemonic; optional '?'
                        {
                            std::string h = u.written;
                            if (!h.empty() && h.back() == '?') h.pop_back();
                            if (h.find('?') != std::string::npos) wellformed = false;
                            if (!h.empty() && h[0] == '*') {
                                if (h.size() < 2 || !isalpha((unsigned char) h[1]) || h.find(':') != std::string::npos || h.find('*', 1) != std::string::npos) wellformed = false;
                            } else {
                                if (!h.empty() && h[0] == ':') h.erase(0, 1);
                                if (h.empty() || h.find('*') != std::string::npos) wellformed = false;
                                size_t s2 = 0;
                                for (size_t k = 0; k <= h.size(); k++)
                                    if (k == h.size() || h[k] == ':') {
                                        if (k == s2 || !isalpha((unsigned char) h[s2])) wellformed = false;
                                        s2 = k + 1;
                                    }
                            }
                        }
                        units.push_back(u);
                        st = i + 1;
                    }
                }
            }
            if (op.s.size() > (size_t) cfg.inbuf - 1) {
                COUNT("message_longer_than_buffer_skipped");
                continue;
            }
            if (!wellformed || units.size() > 8) {
                // not a message of the class the property speaks about (possible only through shrinking): inert
                continue;
            }
            // ---- expectation
            struct Exp {
                std::string eff;
                int entry;   // -1: no entry accepts
            };
            std::vector<Exp> exp;
            std::string prev;
            bool have_prev = false;
            int model_table = cur_table;   // every unit is looked up in the table the context holds when the unit starts
            for (auto &u : units) {
                Exp e;
                e.eff = effective_header(prev, have_prev, u.written);
                e.entry = -1;
                for (size_t i = 0; i < pats.size(); i++)
                    if (table_of[i] == model_table && accepts(pats[i], e.eff)) {
                        e.entry = (int) i;
                        break;
                    }
                if (e.entry >= 0 && switches[(size_t) e.entry] && have_alt && !is_null[(size_t) e.entry]) {
                    model_table ^= 1;
                    if (&u != &units.back()) COUNT("probe_unit_after_table_switch");
                }
                exp.push_back(e);
                prev = e.eff;
                have_prev = true;
                if (e.eff != u.written) COUNT("probe_relative_header_composed");
                if (e.entry < 0) COUNT("probe_undefined_header");
                if (e.entry < 0 && &u != &units.back()) COUNT("probe_unit_after_undefined_header");
            }
            // ---- deliver
            size_t m0 = w.msgs.size();
            size_t pos = 0;
            while (pos < op.s.size() && !v.violated) {
                long n = cuts.empty() ? (long) op.s.size() : cuts[ci++ % cuts.size()];
                if (n < 1) n = 1;
                long fre = (long) w.ctx->buffer.length - (long) w.ctx->buffer.position - 1;
                if (n > fre) n = fre;
                if (n < 1) {
                    w.flush_input();
                    continue;
                }
                if ((size_t) n > op.s.size() - pos) n = (long) (op.s.size() - pos);
                w.input(op.s.data() + pos, (int) n);
                pos += (size_t) n;
            }
            g_alloc.fail_countdown = -1;
            clock += op.s.size();
            COUNT("messages");
            if (v.violated) break;
            // ---- compare, unit by unit in message order (hook H2 delimits the units)
            std::vector<const UnitRec *> got;
            for (size_t mi = m0; mi < w.msgs.size(); mi++)
                for (auto &u : w.msgs[mi].units)
                    if (u.hdr_type != SCPI_TOKEN_UNKNOWN || u.invocations || !u.errs.empty()) got.push_back(&u);
            if (got.size() != exp.size()) {
                v.fail("unit-count", fmt("have=%zu want=%zu", got.size(), exp.size()),
                       fmt("message \"%s\": parser saw %zu units, the message has %zu", c_escape(op.s).substr(0, 120).c_str(), got.size(), exp.size()));
                break;
            }
            std::vector<std::string> undefined_written;
            for (size_t k = 0; k < exp.size() && !v.violated; k++) {
                const UnitRec &u = *got[k];
                int n113 = 0;
                for (int e : u.errs) n113 += e == -113;
                std::string ctx = fmt("unit %zu \"%s\" (effective \"%s\") of \"%s\"", k, c_escape(units[k].written).c_str(), c_escape(exp[k].eff).c_str(),
                                      c_escape(op.s).substr(0, 100).c_str());
                if (exp[k].entry >= 0 && is_null[(size_t) exp[k].entry]) {
                    // the first accepting entry has no callback: nothing may run and the header is not undefined
                    COUNT("probe_null_callback_entry_selected");
                    if (u.invocations != 0)
                        v.fail("wrong-handler", fmt("inv=%d tag=%d want=null-entry-%d", u.invocations, u.tag, exp[k].entry),
                               fmt("%s: the first accepting entry %d \"%s\" has no callback, but entry %d ran", ctx.c_str(), exp[k].entry,
                                   patstr[(size_t) exp[k].entry].c_str(), u.tag));
                    else if (n113)
                        v.fail("spurious-113", "null-entry", ctx + ": -113 raised although an entry (without callback) accepts the header");
                } else if (exp[k].entry >= 0) {
                    if (u.invocations != 1 || u.tag != exp[k].entry)
                        v.fail("wrong-handler", fmt("inv=%d tag=%d want=%d %s", u.invocations, u.tag, exp[k].entry, k && exp[k - 1].entry < 0 ? "after-undefined" : ""),
                               fmt("%s: expected exactly one invocation of entry %d \"%s\", got %d invocation(s), tag %d%s", ctx.c_str(), exp[k].entry,
                                   patstr[(size_t) exp[k].entry].c_str(), u.invocations, u.tag, n113 ? ", -113 raised" : ""));
                    else if (upper(u.cmd_raw) != upper(exp[k].eff))
                        v.fail("effective-header", "cmd_raw", fmt("%s: handler saw header \"%s\"", ctx.c_str(), c_escape(u.cmd_raw).c_str()));
                    else if (n113)
                        v.fail("spurious-113", "", ctx + ": -113 raised although an entry accepts the header");
                } else {
                    if (u.invocations != 0)
                        v.fail("wrong-handler", fmt("inv=%d tag=%d want=-1 %s", u.invocations, u.tag, k && exp[k - 1].entry < 0 ? "after-undefined" : ""),
                               fmt("%s: no entry accepts it, but entry %d \"%s\" ran", ctx.c_str(), u.tag, u.tag >= 0 && u.tag < (int) patstr.size() ? patstr[(size_t) u.tag].c_str() : "?"));
                    else if (n113 != 1)
                        v.fail("undefined-113", fmt("n=%d", n113), fmt("%s: expected exactly one -113, the error callback saw %d", ctx.c_str(), n113));
                    undefined_written.push_back(units[k].written);
                }
            }
            // ---- the queued -113 errors carry the offending text (queue has room: 16 entries, drained per message)
            size_t ui = 0;
            int guard = 0;
            while (SCPI_ErrorCount(w.ctx) > 0 && guard++ < 40 && !v.violated) {
                int code;
                std::string text;
                bool has;
                size_t failed_before = g_alloc.failed;
                (void) failed_before;
                w.fw_pop(code, text, has);
                if (code != -113) continue;
                if (ui >= undefined_written.size()) break;
                const std::string &wr = undefined_written[ui++];
                if (has) {
                    if (text.find(wr) == std::string::npos)
                        v.fail("113-text", "mismatch", fmt("-113 for header \"%s\" carries text \"%s\"", c_escape(wr).c_str(), c_escape(text).c_str()));
                } else if (g_alloc.failed == 0) {
                    v.fail("113-text", "missing", fmt("-113 for header \"%s\" carries no text although no allocation failed", c_escape(wr).c_str()));
                } else {
                    COUNT("fault_alloc_failed_113_text");
                }
            }
            // every undefined unit left exactly one -113 in the queue (16 entries, drained before and after each message: no overflow possible)
            if (!v.violated && ui != undefined_written.size())
                v.fail("113-not-queued", fmt("have=%zu want=%zu allocfail=%d", ui, undefined_written.size(), g_alloc.failed > 0),
                       fmt("message \"%s\": %zu undefined header(s) but %zu -113 entr%s in the error queue", c_escape(op.s).substr(0, 100).c_str(), undefined_written.size(), ui,
                           ui == 1 ? "y" : "ies"));
            g_alloc.failed = 0;
        }
        v.trace_hash = w.hash();
        v.nontrivial = w.nontrivial;
        v.sim_ms = clock;
    }
    g_alloc = AllocCtl();
}

// ---------------------------------------------------------------- generation
const char *POOL[] = {"ALPha", "BETa", "GAMMa", "DELTa", "EPS", "ZETAx", "Eta", "THeta", "SYSTem", "ERRor", "NEXT", "COUNt", "VERSion", "STATus", "QUEStionable",
                      "EVENt", "ENABle", "MEASure", "VOLTage", "DC", "AC", "CONFigure", "TEST", "TREEA", "TREEB", "CHANnellist", "TEXTfunction",
                      // underscores and digits are mnemonic characters too (488.2 7.6.1.2): the short form ends at the first lower-case letter
                      "MAC_ADDRess", "MAC", "IP_ADDRess", "IP", "TTL_Trg", "TTL", "P2Pmode", "CH1Alarm"};
const size_t NPOOL = sizeof POOL / sizeof POOL[0];
const char *COMMON[] = {"*AAA", "*AAA?", "*IDN?", "*RST", "*OPC", "*OPC?", "*CLS", "*ESR?"};
const char *SHIPPED[] = {"*CLS", "*ESE", "*ESE?", "*ESR?", "*IDN?", "*OPC", "*OPC?", "*RST", "*SRE", "*SRE?", "*STB?", "*TST?", "*WAI", "SYSTem:ERRor[:NEXT]?",
                         "SYSTem:ERRor:COUNt?", "SYSTem:VERSion?", "STATus:QUEStionable[:EVENt]?", "STATus:QUEStionable:ENABle", "STATus:QUEStionable:ENABle?",
                         "STATus:PRESet", "MEASure:VOLTage:DC?", "CONFigure:VOLTage:DC", "MEASure:VOLTage:DC:RATio?", "MEASure:VOLTage:AC?", "MEASure:CURRent:DC?",
                         "MEASure:RESistance?", "SYSTem:COMMunication:TCPIP:CONTROL?", "TEST:BOOL", "TEST:CHOice?", "TEST#:NUMbers#", "TEST:TEXT", "TEST:ARBitrary?",
                         "TEST:CHANnellist", "TEXTfunction?", "TEST:TREEA?", "TEST:TREEB?", "STUB", "STUB?", "[:MEASure]:VOLTage[:DC]?", "SAMple"};

std::string gen_pattern(Rng &r, const std::vector<std::string> &roots) {
    long nk = r.range(1, 4);
    std::vector<size_t> used;
    std::string p;
    bool any_mandatory = false;
    for (long k = 0; k < nk; k++) {
        size_t idx;
        if (k == 0 && !roots.empty() && r.chance(3, 4)) {
            // share the first keyword with other entries so that relative headers have siblings
            std::string root = roots[r.below(roots.size())];
            idx = 0;
            for (size_t j = 0; j < NPOOL; j++)
                if (root == POOL[j]) idx = j;
        } else {
            idx = r.below(NPOOL);
        }
        bool dup = false;
        for (size_t u : used) dup |= u == idx;
        if (dup) continue;
        used.push_back(idx);
        bool opt = r.chance(1, 4);
        bool num = r.chance(1, 6);
        if (k == nk - 1 && !any_mandatory) opt = false;
        std::string kw = POOL[idx];
        if (num) kw += "#";
        if (opt)
            p += "[:" + kw + "]";
        else {
            p += (p.empty() ? "" : ":") + kw;
            any_mandatory = true;
        }
    }
    if (!any_mandatory) p += (p.empty() ? "" : ":") + std::string("OMEGa");
    if (r.chance(1, 2)) p += "?";
    if (p[0] != '[' && r.chance(1, 10)) p = ":" + p;   // an entry written with its root colon
    return p;
}

bool g_spell_plain_long = false;   // every keyword in its long form, upper case, no leading colon (what a code generator on the controller side emits)
std::string spell(Rng &r, const Pat &p) {
    if (g_spell_plain_long && !p.common) {
        std::string s;
        for (size_t i = 0; i < p.kws.size(); i++) s += (i ? ":" : "") + p.kws[i].longf + (p.kws[i].numeric && r.chance(1, 2) ? std::to_string(r.below(10)) : "");
        return s + (p.query ? "?" : "");
    }
    if (p.common) return "*" + (r.chance(1, 2) ? p.common_name : [&] {
        std::string s = p.common_name;
        for (auto &c : s) c = (char) tolower((unsigned char) c);
        return s;
    }()) + (p.query ? "?" : "");
    std::string s;
    bool first = true;
    bool any = false;
    for (size_t i = 0; i < p.kws.size(); i++) {
        const Kw &k = p.kws[i];
        if (k.optional && r.chance(1, 2)) continue;
        std::string m = r.chance(1, 2) ? k.shortf : k.longf;
        for (auto &c : m)
            if (r.chance(1, 3)) c = (char) tolower((unsigned char) c);
        if (k.numeric && r.chance(2, 3)) {
            if (r.chance(1, 8)) {
                // long suffixes: leading zeros, more digits than an int32 has
                long nd = r.range(5, 14);
                for (long d = 0; d < nd; d++) m += (char) ('0' + (d < 3 && r.chance(1, 2) ? 0 : r.below(10)));
            } else {
                m += std::to_string(r.below(20));
            }
        }
        s += (first ? "" : ":") + m;
        first = false;
        any = true;
    }
    if (!any) s = p.kws.empty() ? "X" : p.kws[0].longf;
    if (r.chance(1, 4)) s = ":" + s;
    return s + (p.query ? "?" : "");
}

void generate_c02(Rng &r, const GenOpts &g, Plan &p) {
    std::vector<std::string> table;
    g_spell_plain_long = false;
    if (r.chance(1, 10)) {
        // a deep tree: leaves that differ only in their last keyword(s), below a prefix of more than 32 characters
        static const char *chain[] = {"CALCulate", "MEASurement", "LIMit", "CLIPping", "STATe", "CHANnellist"};
        static const char *leaves[][2] = {{"UPPer", "LOWer"}, {"MINimum", "MAXimum"}, {"RISE", "FALL"}, {"STARt", "STOP1"}, {"ENABle", "DISAble"}};
        std::string prefix;
        long depth = r.range(3, 6);
        for (long i = 0; i < depth; i++) prefix += std::string(i ? ":" : "") + chain[i];
        long npairs = r.range(1, 3);
        for (long i = 0; i < npairs; i++) {
            size_t k = r.below(5);
            bool q = r.chance(1, 2);
            table.push_back(prefix + ":" + leaves[k][0] + (q ? "?" : ""));
            table.push_back(prefix + ":" + leaves[k][1] + (q ? "?" : ""));
            if (r.chance(1, 3)) table.push_back(prefix + ":" + leaves[k][0] + ":" + leaves[(k + 1) % 5][0] + (q ? "?" : ""));
        }
        for (size_t i = table.size(); i > 1; i--) std::swap(table[i - 1], table[r.below(i)]);
        g_spell_plain_long = r.chance(2, 3);
    } else if (r.chance(1, 5)) {
        for (auto s : SHIPPED) table.push_back(s);
    } else {
        std::vector<std::string> roots;
        long nroots = r.range(1, 3);
        for (long i = 0; i < nroots; i++) roots.push_back(POOL[r.below(NPOOL)]);
        long n = r.chance(1, 40) ? (r.chance(1, 4) ? r.range(250, 330) : r.range(60, 140)) : r.range(2, 12);   // now and then a table the size of a real instrument's
        for (long i = 0; i < n; i++) {
            if (r.chance(1, 6))
                table.push_back(COMMON[r.below(sizeof COMMON / sizeof COMMON[0])]);
            else
                table.push_back(gen_pattern(r, roots));
        }
        // deliberately overlapping entries: a duplicate, and a variant with the last keyword made optional
        if (r.chance(1, 3)) table.push_back(table[r.below(table.size())]);
    }
    std::vector<Pat> pats;
    bool null_entries = r.chance(1, 3);
    bool two_tables = r.chance(1, 5);   // an instrument with two command sets and handlers that switch between them
    for (auto &t : table) {
        p.ops.push_back(Op("pat", {(null_entries && r.chance(1, 4)) ? 1L : 0L, (two_tables && r.chance(1, 3)) ? 1L : 0L}, t));
        pats.push_back(parse_pattern(t));
    }
    if (two_tables) {
        // the second set shares some entries with the first (possibly at other positions), drops some and adds some
        std::vector<std::string> t2;
        for (auto &t : table)
            if (r.chance(1, 2)) t2.push_back(t);
        long extra = r.range(1, 4);
        for (long i = 0; i < extra; i++) t2.push_back(r.chance(1, 6) ? std::string(COMMON[r.below(sizeof COMMON / sizeof COMMON[0])]) : std::string(POOL[r.below(NPOOL)]) + (r.chance(1, 2) ? "?" : ""));
        for (size_t i = t2.size(); i > 1; i--) std::swap(t2[i - 1], t2[r.below(i)]);
        for (auto &t : t2) {
            p.ops.push_back(Op("pat2", {(null_entries && r.chance(1, 4)) ? 1L : 0L, r.chance(1, 3) ? 1L : 0L}, t));
            pats.push_back(parse_pattern(t));
        }
    }
    if (r.chance(1, 5)) p.knob["inbuf"] = r.range(80, 160);
    long nm = r.chance(1, 2) ? 1 : r.range(2, 6);
    for (long m = 0; m < nm; m++) {
        if (r.chance(1, 6)) {
            std::vector<long> c;
            long nc = r.range(1, 3);
            for (long j = 0; j < nc; j++) c.push_back(r.chance(1, 3) ? 1 : r.range(1, 16));
            p.ops.push_back(Op("cuts", c));
        }
        if (r.chance(1, 12)) p.ops.push_back(Op("over"));
        if (r.chance(1, 10)) p.ops.push_back(Op("junk", {}, r.chance(1, 2) ? "ALP:BET #15ab" : "GAMM:DELT \"abc"));
        if (r.chance(1, 8)) p.ops.push_back(Op("allocfail", {(long) r.below(3)}));
        std::string msg;
        long nu = r.chance(1, 3) ? 1 : r.range(2, 6);
        std::string prev_written_abs;
        for (long u = 0; u < nu; u++) {
            std::string h;
            int kind = (int) r.below(10);
            const Pat &pe = pats[r.below(pats.size())];
            if (kind <= 5) {
                h = spell(r, pe);
            } else if (kind == 6 || kind == 7) {
                // relative form: only the last mnemonic(s) of a spelling
                std::string full = spell(r, pe);
                if (!full.empty() && full[0] == ':') full.erase(0, 1);
                size_t c = full.rfind(':');
                if (c != std::string::npos && r.chance(1, 3)) c = full.rfind(':', c - 1) == std::string::npos ? c : full.rfind(':', c - 1);
                h = c == std::string::npos ? full : full.substr(c + 1);
            } else {
                // undefined headers, with and without colons, shorter and longer than the path
                static const char *und[] = {"NOPE", "ALP:NOPE", "X", "ABC:D", "ALPha:BETa:GAMMa:DELTa:EPS:NOPE", "E", "F", "*NOP", "*NOP?", ":NOPE:X?", "Q", "X:Q", "C", "ZZ:YY:XX"};
                h = und[r.below(sizeof und / sizeof und[0])];
            }
            if (h.empty()) h = "X";
            if (u) msg += ";";
            if (r.chance(1, 10)) msg += " ";
            msg += h;
            if (r.chance(1, 8)) msg += " 1";
        }
        static const char *term[] = {"\n", "\r\n", "\r"};
        msg += term[r.below(3)];
        p.ops.push_back(Op("msg", {}, msg));
    }
    g_spell_plain_long = false;
    (void) g;
}

const Property C02 = {
    "C02",
    "Each message unit runs exactly the first command matching its effective header",
    {"malloc"},
    generate_c02,
    execute_c02,
    {"probe_relative_header_composed", "probe_undefined_header", "probe_unit_after_undefined_header", "probe_null_callback_entry_selected", "fault_alloc_failed_113_text", "fault_broken_predecessor",
     "fault_oversize_chunk"},
    "per run a command table drawn from the supported pattern grammar (1..4 keywords from a pool with pairwise distinct short/long forms, [:OPT] keywords incl. the first, "
    "KEY#, trailing ?, common *XYZ, shared first keywords, duplicated entries; 1 run in 5 uses the tables shipped in tests/examples) and 1..6 messages of 1..6 units whose "
    "headers are spellings of entries (short/long, any case, leading colon, optional keywords in/out, numeric suffixes), relative tails, or undefined headers; any "
    "segmentation, preceding broken/overrun messages, allocation failure on the -113 text. Oracle: independent composer + pattern-language acceptor, per unit via hook H2. Also: tables of up to 330 entries, deep trees with 45-character common prefixes spelled in plain long form, keywords with underscores and digits, patterns with a root colon, long numeric suffixes, entries without callback, two tables with handlers that point the context at the other one. "
    "distinct_nontrivial = distinct canonical trace hashes.",
};
PropertyRegistrar r02(&C02);

}   // namespace
