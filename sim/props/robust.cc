// C01: no out-of-bounds access, undefined behaviour or hang on any input stream, in any segmentation,
// with handlers that apply every parameter/expression/result API (the torture handler), in all four builds.
#include "instrument.h"

namespace {

void execute_c01(const Plan &plan, Verdict &v) {
    WorldCfg cfg;
    cfg.inbuf = (int) clampl(plan.k("inbuf", 64), 2, 100000);
    cfg.queue = (int) clampl(plan.k("queue", 4), 1, 8);
    cfg.heap = (int) clampl(plan.k("heap", 16), 2, 64);
    cfg.wr_mode = (int) (plan.k("wr_mode", 0) & 3);
    cfg.flush_err = (int) (plan.k("flush_err", 0) & 1);
    cfg.with_units = plan.k("no_units", 0) == 0;
    for (int i = 0; i < 4; i++) {
        long l = plan.k(fmt("idn%d", i), -1);
        cfg.idn_len[i] = l < -2 ? -1 : (int) std::min(l, 200L);
    }
    if (cfg.idn_len[0] != -1) COUNT("deployment_with_its_own_identification_strings");
    cfg.with_control = plan.k("no_control", 0) == 0;
    InstrOpts io;
    io.torture = true;
    io.tb = (int) clampl(plan.k("tb", 17), 0, 40);
    io.variant = (int) clampl(plan.k("variant", 0), 0, 1000);
    io.pad_before = (int) clampl(plan.k("pad_table", 0), 0, 400);
    g_alloc = AllocCtl();
    g_alloc.fail_all = plan.k("allocfail_all", 0) != 0;
    uint64_t total_bytes = 0;
    int last_byte = -1;   // last byte delivered through SCPI_Input
    // discrete-event clock: segments arrive after their delay; the deployment's idle timer (select() timeout in the example
    // servers) fires when nothing arrived for idle_ms while bytes are pending and makes the zero-length call
    Sim sim;
    enum { EV_SEGMENT = 1, EV_IDLE = 2 };
    uint64_t idle_ms = (uint64_t) clampl(plan.k("idle_ms", 0), 0, 100000);
    uint64_t last_rx = 0;
    {
        World w(cfg);
        instrument_install(w, io);
        w.seal();
        bool any_overrun = false;
        auto check_buffer = [&](const char *where) {
            if (v.violated) return;
            if (!(w.ctx->buffer.position < w.ctx->buffer.length))
                v.fail("buffer-position", where, fmt("after %s: buffer.position=%zu is not below buffer.length=%zu", where, w.ctx->buffer.position, w.ctx->buffer.length));
            if (w.ctx->buffer.data != w.inbuf || w.ctx->buffer.length != (size_t) cfg.inbuf)
                v.fail("buffer-descriptor", where, "the input buffer descriptor was modified");
        };
        for (const Op &op : plan.ops) {
            if (v.violated) break;
            if (op.kind == "in" && op.has_s) {
                if (op.s.empty()) continue;
                // schedule the segment, and the idle timeout that may fire before it
                sim.after((uint64_t) clampl(op.arg(0), 0, 100000), EV_SEGMENT);
                if (idle_ms && w.ctx->buffer.position > 0) sim.at(last_rx + idle_ms, EV_IDLE);
                SimEvent ev;
                while (sim.next(ev) && ev.id != EV_SEGMENT) {
                    if (ev.id == EV_IDLE && w.ctx->buffer.position > 0) {
                        COUNT("fault_idle_timer_fired_mid_stream");
                        w.flush_input();
                        if (!v.violated && w.ctx->buffer.position != 0) v.fail("flush-not-consumed", "pos", "idle-timer zero-length call left bytes pending");
                    }
                }
                w.now_ms = sim.now;
                last_rx = sim.now;
                size_t before = w.ctx->buffer.position;
                bool ret = w.input(op.s);
                total_bytes += op.s.size();
                if (!op.s.empty()) last_byte = (unsigned char) op.s.back();
                const CallRec &c = w.calls.back();
                if (c.overrun) {
                    any_overrun = true;
                    COUNT("fault_oversize_chunk");
                    if (ret) v.fail("overrun-accepted", "ret", "an input call that does not fit the buffer returned TRUE");
                    if (!v.violated && w.ctx->buffer.position != 0)
                        v.fail("overrun-not-invalidated", "pos", fmt("buffer.position=%zu after an overrun", w.ctx->buffer.position));
                } else {
                    if (before + op.s.size() == (size_t) cfg.inbuf - 1) COUNT("probe_chunk_fills_buffer_exactly");
                    if (before > 0 && w.ctx->buffer.position > 0 && w.ctx->buffer.position < before + op.s.size() && c.n_msgs > 0)
                        COUNT("probe_remainder_moved_with_stale_tail");
                }
                if (any_overrun && !c.overrun) COUNT("probe_input_after_overrun");
                check_buffer("SCPI_Input");
            } else if (op.kind == "flush") {
                if (w.ctx->buffer.position > 0) {
                    COUNT("fault_idle_flush_with_pending");
                    const std::string pend = w.pending();
                    // which kind of token was cut by the flush (probe only)
                    size_t q = 0;
                    for (char ch : pend) q += (ch == '"' || ch == '\'');
                    if (q % 2) COUNT("probe_flush_with_partial_quote");
                    if (pend.find('#') != std::string::npos) COUNT("probe_flush_with_partial_block_candidate");
                    if (!pend.empty() && (pend.back() == 'e' || pend.back() == 'E')) COUNT("probe_flush_with_partial_exponent");
                    if (!pend.empty() && pend.back() == ':') COUNT("probe_flush_with_partial_header");
                }
                w.flush_input();
                if (!v.violated && w.ctx->buffer.position != 0) v.fail("flush-not-consumed", "pos", "zero-length call left bytes pending");
                check_buffer("flush");
                sim.now += 1;
            } else if (op.kind == "parse" && op.has_s) {
                w.parse_line(op.s);
                total_bytes += op.s.size();
                COUNT("direct_parse_lines");
                check_buffer("SCPI_Parse");
            } else if (op.kind == "push") {
                bool full = SCPI_ErrorCount(w.ctx) >= cfg.queue;
                if (op.arg(2)) g_alloc.fail_countdown = 0;
                w.fw_push((int) (int16_t) op.arg(0), op.has_s ? op.s.c_str() : nullptr, (size_t) clampl(op.arg(1), 0, 600));
                if (g_alloc.last_failed) COUNT("fault_alloc_failed");
                g_alloc.last_failed = false;
                g_alloc.fail_countdown = -1;
                if (full) COUNT("fault_queue_overflow");
            } else if (op.kind == "pop") {
                int code;
                std::string t;
                bool has;
                w.fw_pop(code, t, has);
            } else if (op.kind == "clear") {
                w.fw_clear();
            } else if (op.kind == "expect_consumed") {
                // generator (i) streams end in a terminator that lies outside any block or string: everything must have been consumed
                // (a plan whose stream does not end in a terminator, e.g. after shrinking, makes no such promise)
                if (!any_overrun && !v.violated && (last_byte == '\n' || last_byte == '\r') && w.ctx->buffer.position != 0)
                    v.fail("not-consumed", "pos", fmt("%zu bytes still pending after a well-formed terminated stream: \"%s\"", w.ctx->buffer.position,
                                                      c_escape(w.pending()).substr(0, 80).c_str()));
            }
            // progress bound: every executed unit consumes at least one byte, so handler invocations are bounded by the bytes delivered
            if (!v.violated && w.handler_calls > total_bytes + 1)
                v.fail("no-progress", "handlers", fmt("%llu handler invocations for %llu input bytes", (unsigned long long) w.handler_calls, (unsigned long long) total_bytes));
        }
        if (w.errs.size() > 0) {
            for (auto &e : w.errs)
                if (e.code == -350) {
                    COUNT("probe_queue_overflow_during_parse");
                    break;
                }
        }
        if (g_collect) {
            uint64_t sig = 0;
            for (auto &c : w.calls) sig = mix64(sig * 31 + (uint64_t) c.len * 7 + (uint64_t) c.n_msgs + (c.overrun ? 1000003 : 0));
            g_sets.add("interleaving", sig);
        }
        v.trace_hash = w.hash();
        v.nontrivial = w.nontrivial;
        v.sim_ms = sim.now;
    }
#if SIM_HAS_INFO && !SIM_HEAP
    if (!v.violated && !g_alloc.live.empty())
        v.fail("leak", fmt("live=%zu", g_alloc.live.size()), fmt("%zu device-dependent texts still allocated after the context was cleared", g_alloc.live.size()));
#endif
    g_alloc = AllocCtl();
}

// cut a stream into `in` ops
void emit_chunks(Rng &r, Plan &p, const std::string &stream, int mode) {
    size_t pos = 0;
    while (pos < stream.size()) {
        long n;
        switch (mode) {
            case 0: n = 1; break;
            case 1: n = r.range(1, 10); break;
            case 2: n = (long) stream.size(); break;
            default: n = r.chance(1, 3) ? 1 : r.range(1, 24); break;
        }
        if ((size_t) n > stream.size() - pos) n = (long) (stream.size() - pos);
        long delay = r.chance(9, 10) ? (long) r.below(4) : (r.chance(1, 2) ? r.range(4, 60) : r.range(60, 6000));
        p.ops.push_back(Op("in", {delay}, stream.substr(pos, (size_t) n)));
        pos += (size_t) n;
        if (r.chance(1, 40)) p.ops.push_back(Op("flush"));
    }
}

void generate_c01(Rng &r, const GenOpts &g, Plan &p) {
    bool thorough = g.tier == "thorough";
    if (r.chance(1, 2500)) {
        // very long message (a block of more than 65535 bytes) through a large input buffer: lengths beyond 16 bits
        long blen = r.chance(1, 2) ? 65536 + r.range(-3, 40) : r.range(33000, 80000);
        std::string body;
        body.reserve((size_t) blen);
        uint64_t x = r.next();
        for (long k = 0; k < blen; k++) {
            x = mix64(x);
            body += (char) (x & 0xff);
        }
        std::string len = std::to_string(blen);
        std::string msg = std::string(r.chance(1, 2) ? "TEST:ARB? " : "TORT? 1,") + "#" + std::to_string(len.size()) + len + body + (r.chance(1, 2) ? ",5" : "") + "\n";
        p.knob["inbuf"] = (long) msg.size() + r.range(1, 300);
        p.knob["queue"] = r.range(1, 8);
        p.knob["heap"] = r.range(2, 64);
        p.knob["tb"] = r.range(0, 40);
        p.knob["variant"] = r.range(0, 200);
        size_t pos = 0;
        while (pos < msg.size()) {
            size_t n = (size_t) r.range(1500, 9000);
            if (n > msg.size() - pos) n = msg.size() - pos;
            p.ops.push_back(Op("in", {0}, msg.substr(pos, n)));
            pos += n;
        }
        p.ops.push_back(Op("expect_consumed"));
        return;
    }
    MsgGenOpts mo;
    mo.torture = true;
    mo.malformed = r.chance(1, 2);
    mo.max_units = 4;
    p.knob["queue"] = r.range(1, 8);
    p.knob["heap"] = r.chance(1, 2) ? r.range(2, 12) : r.range(2, 64);
    p.knob["tb"] = r.chance(1, 3) ? r.range(0, 6) : r.range(0, 40);
    p.knob["variant"] = r.range(0, 200);
    if (r.chance(1, 5)) p.knob["wr_mode"] = r.range(1, 3);
    if (r.chance(1, 10)) p.knob["flush_err"] = 1;
    if (r.chance(1, 12)) p.knob["no_units"] = 1;
    if (r.chance(1, 60)) p.knob["pad_table"] = r.chance(1, 2) ? r.range(200, 300) : r.range(1, 400);
    if (r.chance(1, 6)) {
        // identification strings of the application's choosing: the response to *IDN? is 3 commas plus the four fields;
        // totals around the 72 characters IEEE 488.2 names as the limit, and far beyond
        long total = r.chance(3, 4) ? r.range(60, 84) : r.range(3, 300);
        long left = total - 3;
        long f[4];
        for (int i = 0; i < 4; i++) {
            f[i] = i == 3 ? left : (long) r.below((uint64_t) left / 2 + 1);
            if (f[i] == 0 && r.chance(1, 2)) f[i] = -2, left -= 1;   // a NULL field is reported as "0"
            else left -= f[i];
            if (left < 0) left = 0;
        }
        for (int i = 0; i < 4; i++) p.knob[fmt("idn%d", i)] = f[i];
    }
    if (r.chance(1, 12)) p.knob["no_control"] = 1;
    if (r.chance(1, 10)) p.knob["allocfail_all"] = 1;
    bool idle_timer = r.chance(1, 2);
    if (idle_timer) p.knob["idle_ms"] = (r.chance(1, 2) ? 5000 : (r.chance(1, 2) ? 50 : 1));
    int kind = (int) r.below(10);   // 0-3 grammar, 4-6 mutated, 7-8 boundary truncation, 9 raw bytes
    long nmsg = r.chance(1, 12) ? r.range(8, thorough ? 30 : 14) : r.range(1, 5);
    std::vector<std::string> msgs;
    size_t longest = 0;
    for (long i = 0; i < nmsg; i++) {
        std::string m = gen_message(r, mo);
        if (kind >= 4 && kind <= 6) m = mutate_bytes(r, m, (int) r.range(1, 4));
        if (kind == 9) {
            m.clear();
            long n = r.range(1, 40);
            for (long k = 0; k < n; k++) m += (char) r.below(256);
        }
        m += gen_terminator(r);
        longest = std::max(longest, m.size());
        msgs.push_back(m);
    }
    bool clean = kind <= 3 && !mo.malformed;
    long inbuf;
    if (kind == 7 || kind == 8) {
        // boundary-targeted truncation: cut the last message inside a token and size the buffer so the cut lands at length-1, length-2 or length
        std::string &m = msgs.back();
        static const char *targets = "#\"'eE:(.,";
        size_t cut = std::string::npos;
        for (int tries = 0; tries < 4 && cut == std::string::npos; tries++) cut = m.find(targets[r.below(9)]);
        if (cut == std::string::npos) cut = r.below(m.size());
        cut += (size_t) r.range(0, 3);
        if (cut < m.size()) m.resize(cut);
        if (m.empty()) m = "#";
        inbuf = (long) m.size() + r.range(0, 2);
        clean = false;
    } else {
        switch (r.below(5)) {
            case 0: inbuf = r.range(2, 12); break;                                       // tiny: overruns everywhere
            case 1: inbuf = (long) longest + r.range(-1, 2); break;                        // longest message +- 1
            case 2: inbuf = (long) longest + 1 + r.range(0, 4); break;
            default: inbuf = r.range((long) longest + 1, 300); break;
        }
    }
    if (inbuf < 2) inbuf = 2;
    if (inbuf > 400) inbuf = 400;
    p.knob["inbuf"] = inbuf;
    if (clean && inbuf <= (long) longest) clean = false;
    int segmode = (int) r.below(4);
    int fw_rate = (int) r.below(3);
    bool direct_parse = r.chance(1, 8);
    for (size_t i = 0; i < msgs.size(); i++) {
        if (fw_rate && r.chance(fw_rate, 4)) {
            if (r.chance(1, 5))
                p.ops.push_back(Op(r.chance(1, 2) ? "pop" : "clear"));
            else if (r.chance(1, 2))
                p.ops.push_back(Op("push", {-(long) r.range(100, 400), 0, 0}));
            else
                p.ops.push_back(Op("push", {(long) (int16_t) r.below(65536), r.chance(1, 2) ? 0 : r.range(1, 30), r.chance(1, 4) ? 1 : 0},
                                   std::string("info") + std::to_string(i) + (r.chance(1, 3) ? "\"q\"" : "") + std::string((size_t) r.range(0, 30), 'x')));
        }
        if (direct_parse && r.chance(1, 2)) {
            std::string line = msgs[i];
            p.ops.push_back(Op("parse", {}, line));
            continue;
        }
        if (!clean && r.chance(1, 25)) {
            // oversize delivery: does not fit, buffer invalidated, then input continues
            p.ops.push_back(Op("in", {0}, std::string((size_t) (inbuf + r.range(-1, 8)), r.chance(1, 2) ? 'A' : '\n')));
        }
        emit_chunks(r, p, msgs[i], segmode);
        if (!clean && r.chance(1, 12)) p.ops.push_back(Op("flush"));
    }
    if (clean) {
        // no flush may cut a message in a clean stream: drop the flushes emit_chunks sprinkled in
        std::vector<Op> ops;
        for (auto &o : p.ops)
            if (o.kind != "flush") ops.push_back(o);
        p.ops.swap(ops);
        if (idle_timer)
            for (auto &o : p.ops)
                if (o.kind == "in" && !o.a.empty()) o.a[0] = 0;   // a clean stream arrives without pauses longer than the idle timeout
        if (!direct_parse) p.ops.push_back(Op("expect_consumed"));
    } else if (r.chance(1, 3)) {
        p.ops.push_back(Op("flush"));
    }
}

const Property C01 = {
    "C01",
    "No out-of-bounds access, undefined behaviour or hang on any input stream",
    {"malloc", "heap", "noinfo", "dtostre"},
    generate_c01,
    execute_c01,
    {"fault_oversize_chunk", "probe_input_after_overrun", "fault_idle_flush_with_pending", "probe_flush_with_partial_quote", "probe_flush_with_partial_block_candidate",
     "probe_flush_with_partial_exponent", "probe_flush_with_partial_header", "probe_remainder_moved_with_stale_tail", "probe_queue_overflow_during_parse",
     "probe_chunk_fills_buffer_exactly", "fault_alloc_failed", "direct_parse_lines", "fault_idle_timer_fired_mid_stream"},
    "streams of 1..14 (thorough ..30) messages: grammar-generated over the full command table, byte-mutated (0x00-0xFF), boundary-truncated inside block/quote/"
    "exponent/header with the buffer sized so the cut lands at its end, or raw bytes; fed in 1-byte / <=10 / whole / random segments with idle flushes, oversize "
    "chunks, direct SCPI_Parse lines, firmware pushes and allocation/transport faults; input buffers 2..400, queues 1..8, heaps 2..64; torture handler applies every "
    "Param*/Expr*/Result* API with exact-size buffers. Oracle: ASan/UBSan + hook-H1 poisoning, position<length, consumed-after-well-formed, watchdog, progress "
    "bound. Also: input buffers up to 100000, SCPI_Init identification strings of any length, no unit table, table padded with up to 400 entries, the torture handler also formats application-made numbers, calls the utils.h number formatters with 0..64-byte buffers, SCPI_Match on exact-size names and SCPI_CommandNumbers with short arrays. distinct_nontrivial = distinct canonical trace hashes of runs in which a handler ran or an error was raised.",
};
PropertyRegistrar r01(&C01);

}   // namespace
