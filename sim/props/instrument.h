// A simulated instrument: command table with scripted handlers whose behaviour
// is a deterministic function of (command, parameters), plus generators for
// program messages over that table and a byte-level mutator.
#pragma once
#include "../world.h"

struct InstrOpts {
    bool torture = false;     // add the TORTure commands (C01)
    int tb = 17;              // exact size of caller buffers handed to the library by the torture handler
    int variant = 0;          // rotates which typed reader the torture handler applies to which parameter
    int pad_before = 0;       // this many further (never addressed) entries in front of the instrument's own: a table the size of a large instrument's
};

void instrument_install(World &w, const InstrOpts &o);

// --- message generation -----------------------------------------------------
struct MsgGenOpts {
    bool string_nl = true;        // quoted strings may contain CR/LF
    bool blocks = true;
    bool undefined = true;        // undefined headers
    bool status_cmds = true;      // commands that read status registers / the error queue
    bool malformed = false;       // sprinkle malformed fragments
    bool torture = false;
    bool expr_quotes = false;     // quote characters inside parentheses (malformed expressions)
    bool ws_before_comma = true;
    int max_units = 4;
};
// one program message without terminator
std::string gen_message(Rng &r, const MsgGenOpts &o);
// one parameter literal of a random kind
std::string gen_param(Rng &r, const MsgGenOpts &o, int kind = -1);
const char *gen_terminator(Rng &r);
std::string mutate_bytes(Rng &r, const std::string &s, int nmut);

// canonical text of everything observable about the executed units of a world, message boundaries ignored
// (used by the twin comparisons of C08 / C09)
std::string observable_trace(const World &w, size_t first_msg = 0, bool with_out = true, size_t end_msg = (size_t) -1, bool mask_overflow = false);
std::string drained_queue(World &w);
