// C06: responses are framed (';' between units, ',' between items, one terminator + one flush iff something responded)
// C17: binary results are valid definite-length blocks in the requested byte order; over-length data is refused;
//      a block counts as one item only once it is complete.
// Handlers are scripts carried by the plan; every item's bytes are predicted by an independent encoder.
#include <memory>
#include <sys/mman.h>

#include "../world.h"

namespace {

template <class T> T pickv(std::initializer_list<T> l, Rng &r) { return *(l.begin() + r.below(l.size())); }

enum ItemKind {
    IT_I32 = 0, IT_U32B, IT_I64, IT_U64B, IT_BOOL, IT_MNEM, IT_TEXT, IT_DOUBLE, IT_FLOAT, IT_BLOCK, IT_SBLOCK, IT_ARRAY, IT_HEADER, IT_SMALL, IT_PUSH, IT_STRAY, IT_BIG, IT_GIANT, IT_NESTED, IT_RELAYW, IT_NKINDS
};
enum ElemType { E_I8 = 0, E_U8, E_I16, E_U16, E_I32, E_U32, E_I64, E_U64, E_F32, E_F64, E_NTYPES };
const size_t ELEM_SIZE[E_NTYPES] = {1, 1, 2, 2, 4, 4, 8, 8, 4, 8};

struct Script {
    bool query = true;
    bool ret_err = false;
    std::vector<Op> items;
};

// ---------------------------------------------------------------- independent encoders
std::string enc_uint(uint64_t v, int base) {
    if (base != 2 && base != 8 && base != 16) base = 10;
    std::string d;
    if (v == 0) d = "0";
    while (v) {
        d.insert(d.begin(), "0123456789ABCDEF"[v % (uint64_t) base]);
        v /= (uint64_t) base;
    }
    const char *pre = base == 2 ? "#B" : base == 8 ? "#Q" : base == 16 ? "#H" : "";
    return std::string(pre) + d;
}
std::string enc_int(int64_t v) {
    if (v >= 0) return enc_uint((uint64_t) v, 10);
    return "-" + enc_uint((uint64_t) (-(v + 1)) + 1, 10);
}
std::string enc_text(const std::string &s) {
    std::string o = "\"";
    for (char c : s) {
        o += c;
        if (c == '"') o += '"';
    }
    return o + "\"";
}
std::string enc_block_header(uint64_t len) {
    std::string d = std::to_string(len);
    return "#" + std::to_string(d.size()) + d;
}
std::string enc_double(double d) {
    char buf[64];
    SCPI_DoubleToStr(d, buf, sizeof buf);   // stand-alone formatter: the digits are C16's subject, not this property's
    return buf;
}
std::string enc_float(float f) {
    char buf[64];
    SCPI_FloatToStr(f, buf, sizeof buf);
    return buf;
}

// element j of a seeded array, as raw bits
uint64_t elem_bits(uint64_t seed, size_t j, int et) {
    uint64_t x = mix64(seed * 1000003ULL + j);
    size_t sz = ELEM_SIZE[et];
    uint64_t mask = sz == 8 ? ~0ULL : ((1ULL << (8 * sz)) - 1);
    switch ((seed + j) % 7) {
        case 0: x = 0; break;
        case 1: x = mask; break;
        case 2: x = mask >> 1; break;
        case 3: x = (mask >> 1) + 1; break;
        default: break;
    }
    if (et == E_F32) {
        float f = (float) ((double) (int64_t) (x % 200001) - 100000.0) / 8.0f;
        uint32_t u;
        memcpy(&u, &f, 4);
        return u;
    }
    if (et == E_F64) {
        double d = ((double) (int64_t) (x % 2000001) - 1000000.0) / 64.0;
        uint64_t u;
        memcpy(&u, &d, 8);
        return u;
    }
    return x & mask;
}

std::string enc_elem_ascii(uint64_t bits, int et) {
    switch (et) {
        case E_I8: return enc_int((int8_t) bits);
        case E_U8: return enc_uint((uint8_t) bits, 10);
        case E_I16: return enc_int((int16_t) bits);
        case E_U16: return enc_uint((uint16_t) bits, 10);
        case E_I32: return enc_int((int32_t) bits);
        case E_U32: return enc_uint((uint32_t) bits, 10);
        case E_I64: return enc_int((int64_t) bits);
        case E_U64: return enc_uint(bits, 10);
        case E_F32: {
            uint32_t u = (uint32_t) bits;
            float f;
            memcpy(&f, &u, 4);
            return enc_float(f);
        }
        default: {
            double d;
            memcpy(&d, &bits, 8);
            return enc_double(d);
        }
    }
}

std::string enc_elem_binary(uint64_t bits, int et, bool big_endian) {
    size_t sz = ELEM_SIZE[et];
    std::string o;
    for (size_t k = 0; k < sz; k++) {
        size_t sh = big_endian ? (sz - 1 - k) : k;
        o += (char) ((bits >> (8 * sh)) & 0xFF);
    }
    return o;
}

struct Run {
    World &w;
    Verdict &v;
    bool c17;
    std::vector<Script> scripts;
    // per-unit model
    int items_done = 0;
    uint64_t block_remaining = 0;
    bool block_open = false;
    std::string payload;       // expected unit payload (items joined as the model says)
    bool unit_pushed = false;
    int large_arrays_emitted = 0;
    std::unique_ptr<World> inner;   // a second, independent instrument context (a module behind this mainframe), served from inside handlers
    Run(World &w_, Verdict &v_, bool c) : w(w_), v(v_), c17(c) {}

    void ensure_inner() {
        if (inner) return;
        WorldCfg ic;
        ic.with_flush = w.cfg.with_flush;
        inner.reset(new World(ic));
        inner->add_standard_commands();
        // the module answers with binary arrays of its own, in either byte order
        inner->add_command("ARR#?", [](World &ww) {
            int32_t which[1] = {1};
            SCPI_CommandNumbers(ww.ctx, which, 1, 1);
            uint32_t d32[5];
            uint16_t d16[7];
            for (int j = 0; j < 5; j++) d32[j] = 0xA1B2C3D0u + (uint32_t) j * 0x01010101u;
            for (int j = 0; j < 7; j++) d16[j] = (uint16_t) (0xE0F0u + j * 0x0101u);
            if (which[0] & 2)
                SCPI_ResultArrayUInt16(ww.ctx, d16, 7, (which[0] & 1) ? SCPI_FORMAT_NORMAL : SCPI_FORMAT_SWAPPED);
            else
                SCPI_ResultArrayUInt32(ww.ctx, d32, 5, (which[0] & 1) ? SCPI_FORMAT_NORMAL : SCPI_FORMAT_SWAPPED);
            return SCPI_RES_OK;
        });
        inner->seal();
    }
    // the second context is served from inside the write callback of the first (a blocking transmit routine that polls
    // its other port before it copies the bytes it was handed): armed by a `relay` item, fires at the k-th write call
    long relay_countdown = -1;
    int relay_which = 0;
    void relay_from_write_callback() {
        if (relay_countdown < 0 || v.violated) return;
        if (relay_countdown-- > 0) return;
        ensure_inner();
        int which = relay_which & 3;
        std::string body;
        for (int j = 0; j < ((which & 2) ? 7 : 5); j++)
            body += (which & 2) ? enc_elem_binary((uint16_t) (0xE0F0u + j * 0x0101u), E_U16, (which & 1) != 0) : enc_elem_binary(0xA1B2C3D0u + (uint32_t) j * 0x01010101u, E_U32, (which & 1) != 0);
        std::string want = enc_block_header(body.size()) + body + line_ending();
        size_t o0 = inner->out.size();
        inner->input(fmt("ARR%d?\n", which));
        std::string got = inner->out.substr(o0);
        COUNT("fault_second_context_served_inside_write_callback");
        if (got != want)
            v.fail("item-bytes", "second-context-array", fmt("second context, served from inside the write callback of the first, wrote \"%s\", expected \"%s\"", c_escape(got).c_str(), c_escape(want).c_str()));
    }

    // compare what one API call wrote with the model's expectation for that item
    void check_call(const std::string &what, size_t out_before, const std::string &expect_body, bool completes_item, bool starts_item) {
        std::string delta = w.out.substr(out_before);
        std::string want;
        if (starts_item && items_done > 0) want = ",";
        want += expect_body;
        // the unit separator may be written together with the first bytes of the unit (either framing implementation)
        std::string d2 = delta;
        if (payload.empty() && !d2.empty() && d2[0] == ';' && (want.empty() || want[0] != ';')) d2.erase(0, 1);
        if (c17 && !v.violated && d2 != want)
            v.fail("item-bytes", what, fmt("%s wrote \"%s\", independent encoder expects \"%s\" (items completed before: %d)", what.c_str(),
                                           c_escape(delta).substr(0, 200).c_str(), c_escape(want).substr(0, 200).c_str(), items_done));
        payload += want;
        if (completes_item) items_done++;
    }

    scpi_result_t run_script(int id) {
        Script &s = scripts[(size_t) id];
        scpi_t *c = w.ctx;
        items_done = 0;
        block_remaining = 0;
        block_open = false;
        payload.clear();
        unit_pushed = false;
        for (const Op &it : s.items) {
            if (v.violated) break;
            size_t ob = w.out.size();
            size_t errs_before = w.errs.size();
            switch ((int) it.arg(0)) {
                case IT_I32: {
                    int32_t x = (int32_t) it.arg(1);
                    SCPI_ResultInt32(c, x);
                    check_call("SCPI_ResultInt32", ob, enc_int(x), true, true);
                    break;
                }
                case IT_U32B: {
                    uint32_t x = (uint32_t) it.arg(1);
                    int base = (int) it.arg(2);
                    SCPI_ResultUInt32Base(c, x, (int8_t) base);
                    check_call("SCPI_ResultUInt32Base", ob, enc_uint(x, base), true, true);
                    break;
                }
                case IT_I64: {
                    int64_t x = (int64_t) it.arg(1);
                    SCPI_ResultInt64(c, x);
                    check_call("SCPI_ResultInt64", ob, enc_int(x), true, true);
                    break;
                }
                case IT_U64B: {
                    uint64_t x = (uint64_t) it.arg(1);
                    int base = (int) it.arg(2);
                    SCPI_ResultUInt64Base(c, x, (int8_t) base);
                    check_call("SCPI_ResultUInt64Base", ob, enc_uint(x, base), true, true);
                    break;
                }
                case IT_BOOL: {
                    SCPI_ResultBool(c, it.arg(1) ? TRUE : FALSE);
                    check_call("SCPI_ResultBool", ob, it.arg(1) ? "1" : "0", true, true);
                    break;
                }
                case IT_MNEM: {
                    std::string m = it.s;
                    size_t nul = m.find('\0');
                    if (nul != std::string::npos) m.resize(nul);
                    SCPI_ResultMnemonic(c, m.c_str());
                    check_call("SCPI_ResultMnemonic", ob, m, true, true);
                    break;
                }
                case IT_TEXT: {
                    std::string t = it.s;
                    size_t nul = t.find('\0');
                    if (nul != std::string::npos) t.resize(nul);
                    SCPI_ResultText(c, t.c_str());
                    check_call("SCPI_ResultText", ob, enc_text(t), true, true);
                    break;
                }
                case IT_DOUBLE: {
                    double d;
                    uint64_t b = (uint64_t) it.arg(1);
                    memcpy(&d, &b, 8);
                    SCPI_ResultDouble(c, d);
                    check_call("SCPI_ResultDouble", ob, enc_double(d), true, true);
                    break;
                }
                case IT_FLOAT: {
                    float f;
                    uint32_t b = (uint32_t) it.arg(1);
                    memcpy(&f, &b, 4);
                    SCPI_ResultFloat(c, f);
                    check_call("SCPI_ResultFloat", ob, enc_float(f), true, true);
                    break;
                }
                case IT_BLOCK: {
                    // exact-size copy so that an over-read of the caller's data traps
                    char *tmp = (char *) malloc(it.s.size());
                    memcpy(tmp, it.s.data(), it.s.size());
                    size_t r = SCPI_ResultArbitraryBlock(c, tmp, it.s.size());
                    free(tmp);
                    (void) r;
                    check_call("SCPI_ResultArbitraryBlock", ob, enc_block_header(it.s.size()) + it.s, true, true);
                    block_remaining = 0;   // a new header replaces whatever was announced before, and this block is complete
                    block_open = false;
                    COUNT("blocks_one_shot");
                    break;
                }
                case IT_HEADER: {
                    uint64_t len = (uint64_t) clampl(it.arg(1), 0, 999999999L);
                    SCPI_ResultArbitraryBlockHeader(c, (size_t) len);
                    check_call("SCPI_ResultArbitraryBlockHeader", ob, enc_block_header(len), len == 0, true);
                    block_remaining = len;
                    block_open = len > 0;
                    COUNT("block_headers_only");
                    if (len >= 100000000ULL) COUNT("probe_header_nine_digits");
                    break;
                }
                case IT_SBLOCK: {
                    // a1 = announced length, a2.. = piece sizes cut from it.s in order
                    uint64_t len = (uint64_t) clampl(it.arg(1), 0, 5000);
                    SCPI_ResultArbitraryBlockHeader(c, (size_t) len);
                    check_call("SCPI_ResultArbitraryBlockHeader", ob, enc_block_header(len), len == 0, true);
                    block_remaining = len;
                    block_open = len > 0;
                    size_t pos = 0;
                    for (size_t k = 2; k < it.a.size() && !v.violated; k++) {
                        size_t n = (size_t) clampl(it.a[k], 0, 5000);
                        if (n > it.s.size() - pos) n = it.s.size() - pos;
                        std::string piece = it.s.substr(pos, n);
                        pos += n;
                        size_t ob2 = w.out.size();
                        size_t eb = w.errs.size();
                        char *tmp = (char *) malloc(piece.size());
                        memcpy(tmp, piece.data(), piece.size());
                        size_t r = SCPI_ResultArbitraryBlockData(c, tmp, piece.size());
                        free(tmp);
                        if (n == 0) COUNT("probe_zero_length_piece");
                        if (n > block_remaining) {
                            // over-length data must be refused: nothing written, 0 returned, an error raised
                            COUNT("fault_overlength_block_data");
                            bool raised = false;
                            for (size_t e = eb; e < w.errs.size(); e++) raised |= w.errs[e].code != 0;
                            if (c17 && !v.violated && (w.out.size() != ob2 || r != 0 || !raised))
                                v.fail("overlength-accepted", fmt("n=%zu remaining=%llu", n, (unsigned long long) block_remaining),
                                       fmt("block data of %zu bytes beyond the %llu announced and still open: wrote %zu bytes, returned %zu, error raised: %d", n,
                                           (unsigned long long) block_remaining, w.out.size() - ob2, r, raised));
                            unit_pushed |= raised;
                        } else {
                            bool was_open = block_open;
                            block_remaining -= n;
                            bool completes = was_open && block_remaining == 0;
                            if (completes) block_open = false;
                            check_call("SCPI_ResultArbitraryBlockData", ob2, piece, completes, false);
                        }
                    }
                    COUNT("blocks_streamed");
                    if (block_open) COUNT("probe_block_left_incomplete");
                    break;
                }
                case IT_BIG: {
                    // large block (>= 64 KiB) whose data is really pushed: a1 = length, a2 = piece size (0: one shot), a3 = content seed
                    size_t len = (size_t) clampl(it.arg(1), 0, 300000);
                    size_t piece = (size_t) clampl(it.arg(2), 0, 100000);
                    uint64_t seed = (uint64_t) it.arg(3);
                    std::string data(len, '\0');
                    for (size_t k = 0; k < len; k++) data[k] = (char) (mix64(seed + k / 8) >> (8 * (k % 8)));
                    COUNT("probe_block_of_64k_or_more");
                    if (piece == 0) {
                        char *tmp = (char *) malloc(len);
                        memcpy(tmp, data.data(), len);
                        SCPI_ResultArbitraryBlock(c, tmp, len);
                        free(tmp);
                        check_call("SCPI_ResultArbitraryBlock(big)", ob, enc_block_header(len) + data, true, true);
                    } else {
                        SCPI_ResultArbitraryBlockHeader(c, len);
                        check_call("SCPI_ResultArbitraryBlockHeader(big)", ob, enc_block_header(len), len == 0, true);
                        size_t pos = 0;
                        while (pos < len && !v.violated) {
                            size_t n = std::min(piece, len - pos);
                            size_t ob2 = w.out.size();
                            char *tmp = (char *) malloc(n);
                            memcpy(tmp, data.data() + pos, n);
                            SCPI_ResultArbitraryBlockData(c, tmp, n);
                            free(tmp);
                            pos += n;
                            check_call("SCPI_ResultArbitraryBlockData(big)", ob2, data.substr(pos - n, n), pos == len, false);
                        }
                    }
                    block_remaining = 0;
                    block_open = false;
                    break;
                }
                case IT_GIANT: {
                    // the largest arrays the statement covers (byte count just below 10^9), in the host's byte order so that the
                    // library hands the whole array to write() at once; the array is a lazily mapped zero page, the sink only counts
                    int et = (int) clampl(it.arg(1), 0, E_NTYPES - 1);
                    size_t sz = ELEM_SIZE[et];
                    size_t cnt = (size_t) (999999999ULL / sz) - (size_t) clampl(it.arg(2), 0, 3);
                    size_t bytes = cnt * sz;
                    void *mem = mmap(nullptr, bytes, PROT_READ, MAP_PRIVATE | MAP_ANONYMOUS | MAP_NORESERVE, -1, 0);
                    if (mem == MAP_FAILED) break;
                    COUNT("probe_array_of_nearly_1e9_bytes");
                    size_t errs0 = w.errs.size();
                    w.count_only = true;
                    w.counted = 0;
                    scpi_array_format_t f = SCPI_GetNativeFormat();
                    switch (et) {
                        case E_I8: SCPI_ResultArrayInt8(c, (int8_t *) mem, cnt, f); break;
                        case E_U8: SCPI_ResultArrayUInt8(c, (uint8_t *) mem, cnt, f); break;
                        case E_I16: SCPI_ResultArrayInt16(c, (int16_t *) mem, cnt, f); break;
                        case E_U16: SCPI_ResultArrayUInt16(c, (uint16_t *) mem, cnt, f); break;
                        case E_I32: SCPI_ResultArrayInt32(c, (int32_t *) mem, cnt, f); break;
                        case E_U32: SCPI_ResultArrayUInt32(c, (uint32_t *) mem, cnt, f); break;
                        case E_I64: SCPI_ResultArrayInt64(c, (int64_t *) mem, cnt, f); break;
                        case E_U64: SCPI_ResultArrayUInt64(c, (uint64_t *) mem, cnt, f); break;
                        case E_F32: SCPI_ResultArrayFloat(c, (float *) mem, cnt, f); break;
                        default: SCPI_ResultArrayDouble(c, (double *) mem, cnt, f); break;
                    }
                    w.count_only = false;
                    munmap(mem, bytes);
                    std::string head = w.out.substr(ob);
                    std::string want_head = std::string(items_done > 0 ? "," : "") + enc_block_header(bytes);
                    uint64_t sep = 0;
                    if (payload.empty() && !head.empty() && head[0] == ';') {
                        head.erase(0, 1);
                        sep = 1;
                    }
                    bool raised = false;
                    for (size_t e = errs0; e < w.errs.size(); e++) raised |= w.errs[e].code != 0;
                    uint64_t want_total = sep + want_head.size() + bytes;
                    if (c17 && !v.violated && (head.compare(0, want_head.size(), want_head) != 0 || w.counted != want_total || raised))
                        v.fail("item-bytes", fmt("giant-array et=%d bytes=%zu", et, bytes),
                               fmt("array of %zu elements (%zu bytes): wrote %llu bytes starting \"%s\", expected %llu bytes starting \"%s\", error raised: %d", cnt, bytes,
                                   (unsigned long long) w.counted, c_escape(head.substr(0, 14)).c_str(), (unsigned long long) want_total, want_head.c_str(), raised));
                    payload += want_head;
                    items_done++;
                    block_remaining = 0;
                    block_open = false;
                    break;
                }
                case IT_RELAYW: {
                    relay_countdown = clampl(it.arg(1), 0, 40);
                    relay_which = (int) clampl(it.arg(2), 0, 3);
                    break;
                }
                case IT_NESTED: {
                    // the handler relays a message to another context and reads its answer; that context frames its own response
                    ensure_inner();
                    const std::string le = line_ending();
                    const std::string r0 = "1;1" + le, r1 = "1" + le;
                    const char *relay[][2] = {{"*OPC?;*OPC?\n", r0.c_str()}, {"*OPC?\r\n", r1.c_str()}, {"XYZ;*OPC?\n", r1.c_str()}, {"*OPC\n", ""}};
                    size_t k = (size_t) clampl(it.arg(1), 0, 3);
                    size_t o0 = inner->out.size();
                    int f0 = inner->flushes;
                    inner->input(relay[k][0]);
                    std::string got = inner->out.substr(o0);
                    int fl = inner->flushes - f0;
                    int want_fl = (relay[k][1][0] && inner->cfg.with_flush) ? 1 : 0;
                    COUNT("probe_second_context_served_inside_handler");
                    if (!v.violated && (got != relay[k][1] || fl != want_fl))
                        v.fail("framing", "nested-context", fmt("message \"%s\" relayed to a second context from inside a handler wrote \"%s\" with %d flush(es), expected \"%s\" with %d",
                                                                 c_escape(relay[k][0]).c_str(), c_escape(got).c_str(), fl, c_escape(relay[k][1]).c_str(), want_fl));
                    break;
                }
                case IT_STRAY: {
                    // a data call on whatever block state the previous calls left: continues an open block, otherwise it is beyond the announced length
                    std::string piece = it.s.substr(0, 64);
                    size_t n = piece.size();
                    size_t eb = w.errs.size();
                    char *tmp = (char *) malloc(n);
                    memcpy(tmp, piece.data(), n);
                    size_t r = SCPI_ResultArbitraryBlockData(c, tmp, n);
                    free(tmp);
                    COUNT("stray_block_data_calls");
                    if (n > block_remaining) {
                        COUNT("fault_overlength_block_data");
                        if (!block_open) COUNT("probe_data_after_complete_block");
                        bool raised = false;
                        for (size_t e = eb; e < w.errs.size(); e++) raised |= w.errs[e].code != 0;
                        if (c17 && !v.violated && (w.out.size() != ob || r != 0 || !raised))
                            v.fail("overlength-accepted", fmt("n=%zu remaining=%llu open=%d", n, (unsigned long long) block_remaining, block_open),
                                   fmt("block data of %zu bytes with %llu bytes announced and still open: wrote %zu bytes, returned %zu, error raised: %d", n,
                                       (unsigned long long) block_remaining, w.out.size() - ob, r, raised));
                        unit_pushed |= raised;
                    } else if (n > 0 || block_open) {
                        bool was_open = block_open;
                        block_remaining -= n;
                        bool completes = was_open && block_remaining == 0;
                        if (completes) block_open = false;
                        check_call("SCPI_ResultArbitraryBlockData", ob, piece, completes, false);
                    }
                    break;
                }
                case IT_ARRAY: {
                    int et = (int) clampl(it.arg(1), 0, E_NTYPES - 1);
                    int fmtv = (int) clampl(it.arg(2), 0, 2);
                    size_t cnt = (size_t) clampl(it.arg(3), 0, 70000);
                    // a plan that has both a very large array and a message of hundreds of units would emit it hundreds of times
                    // (tens of seconds per run): after the fourth large array of a run the rest are short
                    if (cnt > 2000 && ++large_arrays_emitted > 4) cnt = 100;
                    uint64_t seed = (uint64_t) it.arg(4);
                    size_t sz = ELEM_SIZE[et];
                    std::vector<uint64_t> bits(cnt);
                    // exact size at the end, native layout; the array may start `skew` elements into the allocation, so that
                    // its address is aligned for its element type only (a window into a larger sample buffer)
                    size_t skew = (size_t) clampl(it.arg(5), 0, 7);
                    // arg 6: the source is a constant table (calibration data in flash / .rodata): read-only pages, array flush
                    // against the end of the mapping
                    bool ro = it.arg(6) != 0 && cnt > 0;
                    size_t bytes = (cnt + skew) * sz, maplen = 0;
                    char *base;
                    if (ro) {
                        maplen = (bytes + 4095) / 4096 * 4096;
                        char *m = (char *) mmap(nullptr, maplen, PROT_READ | PROT_WRITE, MAP_PRIVATE | MAP_ANONYMOUS, -1, 0);
                        if (m == MAP_FAILED) {
                            ro = false;
                            base = (char *) malloc(bytes);
                        } else {
                            base = m + (maplen - bytes);
                        }
                    } else {
                        base = (char *) malloc(bytes);
                    }
                    char *arr = base + skew * sz;
                    if (skew) COUNT("probe_array_source_not_16_byte_aligned");
                    for (size_t j = 0; j < cnt; j++) {
                        bits[j] = elem_bits(seed, j, et);
                        memcpy(arr + j * sz, &bits[j], sz);   // little-endian host: low bytes first (recorded as an assumption)
                    }
                    if (ro) {
                        mprotect(base - (maplen - bytes), maplen, PROT_READ);
                        COUNT("probe_array_source_read_only");
                    }
                    scpi_array_format_t f = (scpi_array_format_t) fmtv;
                    switch (et) {
                        case E_I8: SCPI_ResultArrayInt8(c, (int8_t *) arr, cnt, f); break;
                        case E_U8: SCPI_ResultArrayUInt8(c, (uint8_t *) arr, cnt, f); break;
                        case E_I16: SCPI_ResultArrayInt16(c, (int16_t *) arr, cnt, f); break;
                        case E_U16: SCPI_ResultArrayUInt16(c, (uint16_t *) arr, cnt, f); break;
                        case E_I32: SCPI_ResultArrayInt32(c, (int32_t *) arr, cnt, f); break;
                        case E_U32: SCPI_ResultArrayUInt32(c, (uint32_t *) arr, cnt, f); break;
                        case E_I64: SCPI_ResultArrayInt64(c, (int64_t *) arr, cnt, f); break;
                        case E_U64: SCPI_ResultArrayUInt64(c, (uint64_t *) arr, cnt, f); break;
                        case E_F32: SCPI_ResultArrayFloat(c, (float *) arr, cnt, f); break;
                        default: SCPI_ResultArrayDouble(c, (double *) arr, cnt, f); break;
                    }
                    if (ro)
                        munmap(base - (maplen - bytes), maplen);
                    else
                        free(base);
                    if (fmtv == 0) {
                        // ASCII: every element is an item of its own
                        std::string delta = w.out.substr(ob);
                        std::string want;
                        for (size_t j = 0; j < cnt; j++) {
                            if (items_done + (int) j > 0) want += ",";
                            want += enc_elem_ascii(bits[j], et);
                        }
                        std::string d2 = delta;
                        if (payload.empty() && !d2.empty() && d2[0] == ';') d2.erase(0, 1);
                        if (c17 && !v.violated && d2 != want)
                            v.fail("item-bytes", fmt("ascii-array et=%d", et), fmt("ASCII array of %zu elements (type %d) wrote \"%s\", expected \"%s\"", cnt, et,
                                                                                  c_escape(delta).substr(0, 200).c_str(), c_escape(want).substr(0, 200).c_str()));
                        payload += want;
                        items_done += (int) cnt;
                        COUNT("arrays_ascii");
                    } else {
                        std::string body;
                        for (size_t j = 0; j < cnt; j++) body += enc_elem_binary(bits[j], et, fmtv == 1);
                        check_call(fmt("binary-array et=%d fmt=%d n=%zu", et, fmtv, cnt), ob, enc_block_header(cnt * sz) + body, true, true);
                        block_remaining = 0;
                        block_open = false;
                        COUNT(fmtv == 1 ? "arrays_normal" : "arrays_swapped");
                        if (cnt == 0) COUNT("probe_empty_binary_array");
                        if (cnt * sz >= 100) COUNT("probe_three_digit_block_length");
                    }
                    break;
                }
                case IT_SMALL: {
                    int which = (int) clampl(it.arg(1), 0, 5);
                    int64_t x = (int64_t) it.arg(2);
                    int base = (int) it.arg(3);
                    // values are passed already narrowed: how the convenience macros narrow their argument is not this property's subject
                    switch (which) {
                        case 0: SCPI_ResultInt8(c, (int8_t) x); check_call("SCPI_ResultInt8", ob, enc_int((int8_t) x), true, true); break;
                        case 1: SCPI_ResultUInt8(c, (uint8_t) x); check_call("SCPI_ResultUInt8", ob, enc_uint((uint8_t) x, 10), true, true); break;
                        case 2: SCPI_ResultInt16(c, (int16_t) x); check_call("SCPI_ResultInt16", ob, enc_int((int16_t) x), true, true); break;
                        case 3: SCPI_ResultUInt16(c, (uint16_t) x); check_call("SCPI_ResultUInt16", ob, enc_uint((uint16_t) x, 10), true, true); break;
                        case 4: SCPI_ResultUInt8Base(c, (uint8_t) x, base); check_call("SCPI_ResultUInt8Base", ob, enc_uint((uint8_t) x, (uint8_t) base), true, true); break;
                        default: SCPI_ResultUInt16Base(c, (uint16_t) x, base); check_call("SCPI_ResultUInt16Base", ob, enc_uint((uint16_t) x, base), true, true); break;
                    }
                    break;
                }
                case IT_PUSH: {
                    // firmware/handler raises an error in the middle of the unit
                    SCPI_ErrorPush(c, (int16_t) clampl(it.arg(1), -32768, 32767));
                    unit_pushed = true;
                    COUNT("fault_error_inside_handler");
                    break;
                }
                default: break;
            }
            (void) errs_before;
        }
        w.note("payload=" + c_escape(payload));
        if (s.ret_err) COUNT("fault_handler_returns_err");
        return s.ret_err ? SCPI_RES_ERR : SCPI_RES_OK;
    }
};

void execute_output(const Plan &plan, Verdict &v, bool c17) {
    WorldCfg cfg;
    cfg.queue = (int) clampl(plan.k("queue", 8), 1, 16);
    cfg.inbuf = (int) clampl(plan.k("inbuf", 256), 64, 4000);
    cfg.wr_mode = (int) (plan.k("wr_mode", 0) & 3);
    cfg.flush_err = (int) (plan.k("flush_err", 0) & 1);
    cfg.with_flush = plan.k("no_flush_cb", 0) == 0;   // a transport without a flush callback: the bytes must be the same, no flush can be seen
    if (!cfg.with_flush) COUNT("fault_no_flush_callback_installed");
    if (cfg.wr_mode) COUNT("fault_write_short_or_failed");
    if (cfg.flush_err) COUNT("fault_flush_failed");
    set_line_ending((int) plan.k("line_ending", 0));   // configuration `user` only: the terminator is a run-time setting
    std::string le = line_ending();
    World w(cfg);
    Run run(w, v, c17);
    w.write_hook = [&run](World &) { run.relay_from_write_callback(); };
    // collect handler scripts
    for (const Op &op : plan.ops) {
        if (op.kind == "h") {
            Script s;
            s.query = op.arg(0) != 0;
            s.ret_err = op.arg(1) != 0;
            run.scripts.push_back(s);
        } else if (op.kind == "it" && !run.scripts.empty()) {
            run.scripts.back().items.push_back(op);
        }
    }
    if (run.scripts.size() > 40) run.scripts.resize(40);
    std::vector<std::string> unit_payload;   // per executed unit, in order, filled by the handlers
    struct UnitModel {
        bool q;
        int k;
        bool bytes;
        std::string payload;
    };
    std::vector<UnitModel> cur_units;
    for (size_t i = 0; i < run.scripts.size(); i++) {
        std::string pat = (run.scripts[i].query ? "Q" : "C") + std::to_string(i) + (run.scripts[i].query ? "?" : "");
        w.add_command(pat, [&run, i, &cur_units](World &ww) {
            scpi_result_t r = run.run_script((int) i);
            (void) ww;
            cur_units.push_back(UnitModel{run.scripts[i].query, run.items_done, !run.payload.empty(), run.payload});
            return r;
        });
    }
    w.add_lib_command("*OPC", SCPI_CoreOpc);
    w.add_lib_command("*OPC?", SCPI_CoreOpcQ);
    w.add_lib_command("SYSTem:ERRor[:NEXT]?", SCPI_SystemErrorNextQ);
    w.seal();

    std::vector<long> cuts;
    size_t ci = 0;
    uint64_t clock = 0;
    for (const Op &op : plan.ops) {
        if (v.violated) break;
        if (op.kind == "cuts") {
            cuts = op.a;
            ci = 0;
            continue;
        }
        if (op.kind == "le") {
            // the operator changes the terminator setting of the running instrument (configuration `user`; no-op elsewhere)
            set_line_ending((int) op.arg(0));
            le = line_ending();
            COUNT("fault_terminator_changed_on_live_context");
            continue;
        }
        if (op.kind != "msg" || !op.has_s) continue;
        size_t m0 = w.msgs.size();
        int flushes0 = w.flushes;
        cur_units.clear();
        size_t pos = 0;
        while (pos < op.s.size() && !v.violated) {
            long n = cuts.empty() ? (long) op.s.size() : cuts[ci++ % cuts.size()];
            if (n < 1) n = 1;
            long fre = (long) w.ctx->buffer.length - (long) w.ctx->buffer.position - 1;
            if (n > fre) n = fre;
            if (n < 1) {
                w.flush_input();
                continue;
            }
            if ((size_t) n > op.s.size() - pos) n = (long) (op.s.size() - pos);
            w.input(op.s.data() + pos, (int) n);
            pos += (size_t) n;
        }
        if (w.ctx->buffer.position > 0) {
            w.flush_input();   // idle timer: the message is complete as far as the controller is concerned
            COUNT("fault_idle_flush_completes_message");
        }
        clock += op.s.size();
        COUNT("messages");
        if (v.violated || c17) continue;
        // ---- C06 oracle, per executed message (a `msg` op may hold several terminated messages)
        std::vector<int> flush_totals = {0};   // acceptable numbers of flushes for the whole op (sum over its messages)
        for (size_t mi = m0; mi < w.msgs.size() && !v.violated; mi++) {
            const MsgRec &m = w.msgs[mi];
            // classify units
            struct Cls {
                int cls;   // 0 = N, 1 = Y, 2 = open
                std::string payload;
            };
            std::vector<Cls> cl;
            bool has_lib_query = false;
            for (const UnitRec &u : m.units) {
                if (u.invocations == 0) {
                    if (!u.errs.empty() || !u.out.empty()) cl.push_back(Cls{0, ""});
                    continue;
                }
                if (u.tag >= (int) run.scripts.size()) {
                    // library handlers (*OPC?, SYST:ERR?) respond with exactly what they wrote
                    bool q = !u.cmd_raw.empty() && u.cmd_raw.back() == '?';
                    std::string o = u.out;
                    if (!o.empty() && o[0] == ';') o.erase(0, 1);
                    cl.push_back(Cls{q ? 1 : 0, o});
                    has_lib_query |= q;
                    continue;
                }
                // payload from the handler's note
                std::string pl;
                size_t p0 = u.notes.rfind("payload=");
                if (p0 != std::string::npos) {
                    std::string esc = u.notes.substr(p0 + 8);
                    while (!esc.empty() && esc.back() == '\n') esc.pop_back();
                    c_unescape(esc, pl);
                }
                const Script &s = run.scripts[(size_t) u.tag];
                bool bad = u.hres != SCPI_RES_OK;
                for (int e : u.errs) bad |= e != 0;
                int k = pl.empty() ? 0 : 1;
                int c;
                if (!s.query)
                    c = k ? 1 : 0;   // commands that emit are not generated; if they do, bytes are on the wire
                else if (k >= 1)
                    c = 1;           // bytes are on the wire: the unit responded (for the bad case N can never match)
                else
                    c = (u.hres != SCPI_RES_OK) ? 0 : 2;   // handler succeeded with zero items (an error may still have been raised): both readings accepted
                cl.push_back(Cls{c, pl});
                if (c == 2) COUNT("probe_query_succeeds_with_zero_items");
                if (s.query && k && bad) COUNT("probe_query_fails_after_emitting");
            }
            size_t nopen = 0;
            for (auto &c : cl) nopen += c.cls == 2;
            if (nopen > 10) nopen = 10;
            bool matched = false;
            bool fl_seen[2] = {false, false};
            std::string first_expect;
            for (uint32_t mask = 0; mask < (1u << nopen); mask++) {
                std::string exp;
                bool any = false;
                size_t oi = 0;
                for (auto &c : cl) {
                    bool y = c.cls == 1;
                    if (c.cls == 2) {
                        y = (mask >> (oi < 10 ? oi : 9)) & 1;
                        oi++;
                    }
                    if (!y) continue;
                    if (any) exp += ";";
                    exp += c.payload;
                    any = true;
                }
                if (any) exp += le;
                int fl = (any && cfg.with_flush) ? 1 : 0;
                if (mask == 0) first_expect = exp;
                if (m.out == exp) {
                    matched = true;
                    fl_seen[fl] = true;
                }
            }
            if (matched) {
                // flushes are counted over the whole op below (a flush issued right after the message still belongs to it)
                std::vector<int> nt;
                for (int t : flush_totals)
                    for (int f = 0; f < 2; f++)
                        if (fl_seen[f]) nt.push_back(t + f);
                std::sort(nt.begin(), nt.end());
                nt.erase(std::unique(nt.begin(), nt.end()), nt.end());
                flush_totals.swap(nt);
            }
            if (!matched) {
                std::string units;
                for (auto &c : cl) units += c.cls == 1 ? "Y" : c.cls == 0 ? "N" : "?";
                const char *rule = "framing";
                std::string sig = units;
                if (m.out.find(";" + le) != std::string::npos || m.out.find(";;") != std::string::npos || (!m.out.empty() && m.out[0] == ';' && units.find('?') == std::string::npos))
                    sig += " dangling-separator";
                else if (!m.out.empty() && (m.out.size() < le.size() || m.out.substr(m.out.size() - le.size()) != le))
                    sig += " missing-terminator";
                v.fail(rule, sig, fmt("message \"%s\" wrote \"%s\" with %d flush(es); units respond [%s], expected e.g. \"%s\"", c_escape(m.text).substr(0, 120).c_str(),
                                      c_escape(m.out).substr(0, 200).c_str(), m.flushes, units.c_str(), c_escape(first_expect).substr(0, 200).c_str()));
            }
            if (mi + 1 == w.msgs.size() && !v.violated) {
                int got = w.flushes - flushes0;
                if (std::find(flush_totals.begin(), flush_totals.end(), got) == flush_totals.end())
                    v.fail("framing", "flush-count", fmt("messages \"%s\" caused %d flush call(s); exactly one per responding message is expected (%d)", c_escape(op.s).substr(0, 120).c_str(), got,
                                                         flush_totals.empty() ? 0 : flush_totals.front()));
            }
            if (cl.size() >= 2) COUNT("probe_multi_unit_message");
            if (mi > 0) COUNT("probe_message_after_history");
            (void) has_lib_query;
        }
    }
    v.trace_hash = w.hash();
    v.nontrivial = w.nontrivial;
    v.sim_ms = clock;
}

// ---------------------------------------------------------------- generation
std::string rand_text(Rng &r, long maxlen) {
    static const char a[] = "abcXYZ019 ,;\"'#:_-\xA2\xC3\xB0\xBB";   // incl. bytes >= 0x80 whose low seven bits are '"', 'C', '0', ';'
    std::string s;
    long n = r.range(0, maxlen);
    for (long i = 0; i < n; i++) s += a[r.below(sizeof a - 1)];
    return s;
}
std::string rand_bytes(Rng &r, long n) {
    std::string s;
    for (long i = 0; i < n; i++) s += r.chance(1, 4) ? "\n\r;,#\"\0\xff"[r.below(8)] : (char) r.below(256);
    return s;
}
long boundary_i64(Rng &r, int bits) {
    uint64_t m = bits >= 64 ? ~0ULL : ((1ULL << bits) - 1);
    switch (r.below(6)) {
        case 0: return 0;
        case 1: return (long) m;
        case 2: return (long) (m >> 1);
        case 3: return (long) ((m >> 1) + 1);
        case 4: return -1;
        default: return (long) (r.next() & m);
    }
}

void gen_item(Rng &r, Plan &p, bool c17, bool misuse) {
    int kind;
    if (c17)
        kind = pickv<int>({IT_ARRAY, IT_ARRAY, IT_ARRAY, IT_BLOCK, IT_SBLOCK, IT_SBLOCK, IT_HEADER, IT_I32, IT_TEXT, IT_ARRAY}, r);
    else
        kind = pickv<int>({IT_I32, IT_U32B, IT_I64, IT_U64B, IT_BOOL, IT_MNEM, IT_TEXT, IT_DOUBLE, IT_FLOAT, IT_BLOCK, IT_SBLOCK, IT_ARRAY, IT_SMALL, IT_I32}, r);
    static const int bases[] = {2, 8, 10, 16, 10, 16};
    if (!c17 && r.chance(1, 3000)) {
        // a response unit with more than 32767 items (ASCII array): item counters must not wrap
        // (just past 2^15 and just past 2^16 items, then one more item so that the separator after the wrap point is seen)
        p.ops.push_back(Op("it", {IT_ARRAY, (long) (r.chance(1, 2) ? E_I8 : E_U8), 0, r.chance(1, 2) ? r.range(32760, 40000) : r.range(65530, 69000), (long) r.below(1000000)}));
        p.ops.push_back(Op("it", {IT_I32, 7}));
        return;
    }
    if (c17 && r.chance(1, 4000)) {
        p.ops.push_back(Op("it", {IT_GIANT, (long) r.below(E_NTYPES), r.chance(1, 2) ? 0 : r.range(1, 3)}));
        return;
    }
    if (c17 && r.chance(1, 1500)) {
        long len = r.chance(1, 2) ? 65536 + r.range(-2, 6) : (r.chance(1, 2) ? 131072 + r.range(-1, 4) : r.range(60000, 200000));
        p.ops.push_back(Op("it", {IT_BIG, len, r.chance(1, 3) ? 0 : r.range(500, 70000), (long) r.below(1000000)}));
        return;
    }
    switch (kind) {
        case IT_I32: p.ops.push_back(Op("it", {kind, (long) (int32_t) boundary_i64(r, 32)})); break;
        case IT_U32B: p.ops.push_back(Op("it", {kind, (long) (uint32_t) boundary_i64(r, 32), bases[r.below(6)]})); break;
        case IT_I64: p.ops.push_back(Op("it", {kind, boundary_i64(r, 64)})); break;
        case IT_U64B: p.ops.push_back(Op("it", {kind, boundary_i64(r, 64), bases[r.below(6)]})); break;
        case IT_BOOL: p.ops.push_back(Op("it", {kind, (long) r.below(2)})); break;
        case IT_MNEM: p.ops.push_back(Op("it", {kind}, pickv<const char *>({"ABC", "MIN", "x", "Long_Mnemonic1"}, r))); break;
        case IT_TEXT: p.ops.push_back(Op("it", {kind}, rand_text(r, 12))); break;
        case IT_DOUBLE: {
            double d = pickv<double>({0.0, 1.5, -2.25, 1e300, 1e-300, 123456789.125, -0.0, 3.14159265358979}, r);
            if (r.chance(1, 3)) d = (double) (int64_t) r.below(2000000) / 1024.0;
            uint64_t b;
            memcpy(&b, &d, 8);
            p.ops.push_back(Op("it", {kind, (long) b}));
            break;
        }
        case IT_FLOAT: {
            float f = pickv<float>({0.0f, 1.5f, -2.25f, 1e30f, 1e-30f, 65536.5f}, r);
            uint32_t b;
            memcpy(&b, &f, 4);
            p.ops.push_back(Op("it", {kind, (long) b}));
            break;
        }
        case IT_BLOCK: {
            long n = r.chance(1, 5) ? r.range(95, 130) : (r.chance(1, 5) ? r.range(9, 12) : r.range(0, 9));
            if (c17 && r.chance(1, 10)) n = r.range(990, 1100);
            p.ops.push_back(Op("it", {kind}, rand_bytes(r, n)));
            break;
        }
        case IT_SBLOCK: {
            long len = r.chance(1, 4) ? r.range(95, 110) : r.range(0, 14);
            std::vector<long> a = {kind, len};
            long total = 0;
            long mode = misuse ? (long) r.below(4) : 0;   // 0 exact, 1 incomplete, 2 over-length at the end, 3 over-length in the middle
            long target = mode == 1 ? std::max(0L, len - r.range(1, 3)) : len;
            while (total < target) {
                long n = r.chance(1, 6) ? 0 : r.range(1, std::max(1L, target - total));
                if (n > target - total) n = target - total;
                if (mode == 3 && r.chance(1, 3)) n = (len - total) + r.range(1, 4);   // does not fit what is still open
                a.push_back(n);
                if (n <= len - total) total += n;
                if (a.size() > 40) break;
            }
            if (r.chance(1, 5)) a.push_back(0);
            if (mode == 2) a.push_back(r.range(1, 5));
            long need = 0;
            for (size_t k = 2; k < a.size(); k++) need += a[k];
            p.ops.push_back(Op("it", a, rand_bytes(r, need)));
            break;
        }
        case IT_ARRAY: {
            long cnt = r.chance(1, 6) ? 0 : (r.chance(1, 6) ? r.range(100, 300) : r.range(1, 13));
            long f = c17 ? r.range(1, 2) : r.range(0, 2);
            if (c17 && r.chance(1, 8)) f = 0;
            if (!c17 && f == 0 && cnt > 6) cnt = r.range(0, 6);
            p.ops.push_back(Op("it", {kind, (long) r.below(E_NTYPES), f, cnt, (long) r.below(1000000), r.chance(1, 3) ? r.range(1, 7) : 0, r.chance(1, 5) ? 1L : 0L}));
            break;
        }
        case IT_HEADER: {
            static const long pow10[] = {1, 10, 100, 1000, 10000, 100000, 1000000, 10000000, 100000000};
            long len = r.chance(1, 2) ? pow10[r.below(9)] : (r.chance(1, 2) ? pow10[r.below(9)] - 1 : r.range(0, 999999999L));
            p.ops.push_back(Op("it", {kind, len}));
            break;
        }
        default: p.ops.push_back(Op("it", {IT_SMALL, (long) r.below(6), boundary_i64(r, 16), bases[r.below(6)]})); break;
    }
}

void generate_output(Rng &r, const GenOpts &g, Plan &p, bool c17) {
    p.knob["queue"] = r.range(1, 8);
    if (r.chance(1, 4)) p.knob["wr_mode"] = r.range(1, 3);
    if (r.chance(1, 8)) p.knob["flush_err"] = 1;
    if (r.chance(1, 12)) p.knob["no_flush_cb"] = 1;
    if (g.config == "user" && r.chance(1, 2)) p.knob["line_ending"] = r.range(1, 2);
    bool lazy_sep_switch = g.avoids("failing_query_after_responder");
    long nh = r.range(1, 7);
    std::vector<int> kinds;   // 0 good query, 1 empty query ok, 2 failing query silent, 3 emits then fails, 4 pushes error and succeeds, 5 command, 6 failing command
    for (long i = 0; i < nh; i++) {
        int k = (int) r.below(c17 ? 3 : 9);
        if (c17) k = pickv<int>({0, 0, 3}, r);
        if (!c17) k = pickv<int>({0, 0, 0, 1, 2, 3, 4, 5, 6, 7}, r);   // 7: a command (no '?') whose handler emits items all the same
        if (lazy_sep_switch && (k == 1 || k == 2 || k == 3 || k == 4)) k = 0;
        kinds.push_back(k);
        bool query = k <= 4;
        bool ret_err = k == 2 || k == 3 || k == 6 || (k == 7 && r.chance(1, 4));
        p.ops.push_back(Op("h", {query ? 1 : 0, ret_err ? 1 : 0}));
        long ni = (k == 1 || k == 2 || k == 5 || k == 6) ? 0 : r.range(1, 4);
        if (k == 4 && r.chance(1, 2)) ni = 0;
        long push_at = k == 4 ? r.range(0, ni) : -1;
        for (long j = 0; j <= ni; j++) {
            if (j == push_at) p.ops.push_back(Op("it", {IT_PUSH, -(long) r.range(200, 299)}));
            if (!c17 && r.chance(1, 25)) p.ops.push_back(Op("it", {IT_NESTED, (long) r.below(4)}));
            if (c17 && r.chance(1, 10)) p.ops.push_back(Op("it", {IT_RELAYW, (long) (r.chance(1, 2) ? r.below(4) : r.below(30)), (long) r.below(4)}));
            if (j < ni) gen_item(r, p, c17, c17 && r.chance(1, 3));
            if (j < ni && c17 && r.chance(1, 5)) p.ops.push_back(Op("it", {IT_STRAY}, rand_bytes(r, r.range(1, 6))));
            if (j < ni && c17 && r.chance(1, 12)) {
                // scenario: a block left unfinished, then an EMPTY block / array, then data that would have fitted the first one
                long len = r.range(3, 9), sent = r.range(1, len - 1);
                p.ops.push_back(Op("it", {IT_SBLOCK, len, sent}, rand_bytes(r, sent)));
                switch (r.below(3)) {
                    case 0: p.ops.push_back(Op("it", {IT_HEADER, 0})); break;
                    case 1: p.ops.push_back(Op("it", {IT_BLOCK}, "")); break;
                    default: p.ops.push_back(Op("it", {IT_ARRAY, (long) r.below(E_NTYPES), r.range(1, 2), 0, 1})); break;
                }
                p.ops.push_back(Op("it", {IT_STRAY}, rand_bytes(r, r.range(1, len - sent))));
                if (r.chance(1, 2)) p.ops.push_back(Op("it", {IT_I32, 5}));
            }
        }
    }
    long nm = r.chance(1, 2) ? 1 : r.range(2, 4);
    for (long m = 0; m < nm; m++) {
        if (r.chance(1, 5)) {
            std::vector<long> c;
            long nc = r.range(1, 3);
            for (long j = 0; j < nc; j++) c.push_back(r.chance(1, 3) ? 1 : r.range(1, 14));
            p.ops.push_back(Op("cuts", c));
        }
        if (!c17 && g.config == "user" && r.chance(1, 6)) p.ops.push_back(Op("le", {(long) r.below(3)}));
        std::string msg;
        long nu = r.chance(1, 3) ? 1 : r.range(2, 6);
        if (!c17 && r.chance(1, 1500)) {
            // a scan list sent as one message: hundreds of units
            nu = r.chance(1, 2) ? r.range(120, 135) : r.range(100, 300);
            p.knob["inbuf"] = 4000;
        }
        for (long u = 0; u < nu; u++) {
            if (u) msg += ";";
            long sel = (long) r.below(20);
            if (sel == 0)
                msg += "*OPC?";
            else if (sel == 1)
                msg += "*OPC";
            else if (sel == 2 && !c17)
                msg += "UNDEF";
            else if (sel == 3 && !c17)
                msg += "SYST:ERR?";
            else {
                size_t i = r.below((uint64_t) nh);
                bool query = kinds[i] <= 4;
                msg += (query ? "Q" : "C") + std::to_string(i) + (query ? "?" : "");
                if (!c17 && r.chance(1, kinds[i] == 7 ? 5 : 20)) msg += " 1";   // surplus parameter: -108 after the handler
            }
        }
        static const char *term[] = {"\n", "\r\n", "\r"};
        if (!r.chance(1, 7)) msg += term[r.below(3)];   // otherwise the idle timer completes the message with a zero-length call
        p.ops.push_back(Op("msg", {}, msg));
    }
}

void gen_c06(Rng &r, const GenOpts &g, Plan &p) { generate_output(r, g, p, false); }
void gen_c17(Rng &r, const GenOpts &g, Plan &p) { generate_output(r, g, p, true); }
void exec_c06(const Plan &p, Verdict &v) { execute_output(p, v, false); }
void exec_c17(const Plan &p, Verdict &v) { execute_output(p, v, true); }

const Property C06 = {
    "C06",
    "Responses are framed: ';' between units, ',' between items, one terminator",
    {"malloc", "user"},
    gen_c06,
    exec_c06,
    {"probe_query_succeeds_with_zero_items", "probe_query_fails_after_emitting", "fault_handler_returns_err", "fault_error_inside_handler", "fault_write_short_or_failed",
     "fault_flush_failed", "probe_multi_unit_message", "probe_message_after_history", "probe_second_context_served_inside_handler"},
    "1..4 messages of 1..6 units over 1..7 scripted handlers (queries emitting 0..4 items of every result type and succeeding / failing silently / emitting then failing / "
    "raising an error mid-unit; commands), any segmentation, write/flush faults; captured bytes and flush count must equal one member of the acceptable set built from "
    "independently encoded item payloads (table A.2). Also: commands that emit, messages of 100..300 units, ASCII arrays of up to 69000 items, texts with bytes >= 0x80, a second context served from inside a handler, missing / failing flush callback; in configuration user the terminator is a run-time setting changed between messages. distinct_nontrivial = distinct canonical trace hashes.",
};
const Property C17 = {
    "C17",
    "Binary results are valid definite-length blocks in the requested byte order",
    {"malloc"},
    gen_c17,
    exec_c17,
    {"arrays_normal", "arrays_swapped", "arrays_ascii", "blocks_streamed", "probe_zero_length_piece", "fault_overlength_block_data", "probe_block_left_incomplete",
     "probe_empty_binary_array", "probe_three_digit_block_length", "probe_header_nine_digits", "block_headers_only", "probe_data_after_complete_block", "probe_block_of_64k_or_more", "probe_array_of_nearly_1e9_bytes", "probe_array_source_not_16_byte_aligned", "probe_array_source_read_only", "fault_second_context_served_inside_write_callback"},
    "handler scripts emitting arrays of all ten element types in NORMAL/SWAPPED/ASCII (0..300 elements, boundary values), blocks one-shot and streamed with seeded piece "
    "sizes incl. zero-length pieces, incomplete and over-length data at any point, header-only calls up to 10^9-1, items after complete/incomplete blocks; every API call's "
    "bytes are compared with an independent shift-based encoder, over-length data must be refused. Also: blocks >= 64 KiB, arrays of nearly 10^9 bytes (counting sink), sources at element-aligned addresses and in read-only mappings, a second context answering with arrays of its own from inside the write callback. distinct_nontrivial = distinct canonical trace hashes.",
};
PropertyRegistrar r06(&C06), r17(&C17);

}   // namespace
