// C10 (bounded FIFO, overflow marking, ownership of texts; malloc + noinfo builds),
// C20 (static info heap stores texts intact or not at all; heap build) and
// C18 (SYST:ERR? yields one well-formed bounded response; malloc + heap builds)
// share one workload: histories of firmware pushes/pops/clears/counts
// interleaved with controller traffic, with allocation faults.
#include <memory>
#include <deque>

#include "../world.h"

namespace {

struct Desc {
    int code;
    const char *text;
};
// the library's own X-macro list used as DATA (independent of SCPI_ErrorTranslate's switch)
const Desc DESCS[] = {
#define X(def, val, str) {val, str},
#define XE X
    LIST_OF_ERRORS
#if USE_USER_ERROR_LIST
    LIST_OF_USER_ERRORS
#endif
#undef X
#undef XE
};
const char *describe(int code) {
    for (auto &d : DESCS)
        if (d.code == code) return d.text;
    return "Unknown error";
}

struct Entry {
    int code;
    bool has_ptr;          // C10: a text pointer is owned by the queue (malloc build)
    bool may_text;         // a text may come back
    bool must_text;        // a text must come back
    bool contains;         // parser-generated text (-113): only "contains the header as written" is asserted, not its exact extent
    std::string text;      // expected text (exactly, or the header it must contain) when one comes back
};

enum Mode { M_C10, M_C20, M_C18 };

// independent IEEE 488.2 reader for <int>,"<string>"
bool read_error_response(const std::string &s, int &code, std::string &content, size_t &escaped_len, std::string &why) {
    size_t i = 0;
    bool neg = false;
    if (i < s.size() && (s[i] == '-' || s[i] == '+')) neg = s[i++] == '-';
    size_t d0 = i;
    long val = 0;
    while (i < s.size() && isdigit((unsigned char) s[i])) val = val * 10 + (s[i++] - '0');
    if (i == d0) {
        why = "no error number";
        return false;
    }
    code = (int) (neg ? -val : val);
    if (i >= s.size() || s[i] != ',') {
        why = "no comma after the number";
        return false;
    }
    i++;
    if (i >= s.size() || s[i] != '"') {
        why = "string does not start with a double quote";
        return false;
    }
    i++;
    content.clear();
    escaped_len = 0;
    for (;;) {
        if (i >= s.size()) {
            why = "string is not terminated";
            return false;
        }
        if (s[i] == '"') {
            if (i + 1 < s.size() && s[i + 1] == '"') {
                content += '"';
                escaped_len += 2;
                i += 2;
                continue;
            }
            i++;
            break;
        }
        content += s[i++];
        escaped_len++;
    }
    if (i != s.size()) {
        why = "bytes after the closing quote (an inner quote was not doubled)";
        return false;
    }
    return true;
}

struct QRun {
    World &w;
    Verdict &v;
    Mode mode;
    int cap;
    std::deque<Entry> q;
    bool expect_echo = false;   // the next -350 callback is the overflow announcement, not a push
    long live_expected() const {
        long n = 0;
        for (auto &e : q) n += e.has_ptr ? 1 : 0;
        return n;
    }
    QRun(World &w_, Verdict &v_, Mode m) : w(w_), v(v_), mode(m), cap(w_.cfg.queue) {}

    void model_push(int code, bool has_text, const std::string &text, bool alloc_failed, bool contains = false, bool nested = false) {
        Entry e;
        e.code = code;
        e.has_ptr = false;
        e.may_text = e.must_text = false;
        e.contains = contains;
        bool was_empty = q.empty();
#if SIM_HAS_INFO
        if (has_text) {
#if SIM_HEAP
            // static heap: text or nothing; it must be stored when the queue was empty and it fits
            if (!text.empty()) {
                e.may_text = true;
                e.text = text;
                // (for parser-generated texts only the header is known, not the exact stored extent: never mandatory)
                // (a push from inside the write callback may find the text of the entry being reported still in the heap)
                if (was_empty && !contains && !nested && !w.cfg.no_heap && text.size() + 1 <= (size_t) w.cfg.heap) e.must_text = true;
            }
#else
            if (!alloc_failed) {
                e.has_ptr = true;
                e.may_text = true;
                e.must_text = !text.empty();   // an empty text may come back as "" or as nothing
                e.text = text;
            }
#endif
        }
#endif
        (void) was_empty;
        (void) alloc_failed;
        if ((int) q.size() < cap) {
            q.push_back(e);
        } else {
            Entry o;
            o.code = -350;
            o.has_ptr = o.may_text = o.must_text = o.contains = false;
            q.back() = o;
            expect_echo = true;
            COUNT("fault_queue_overflow");
            if (e.may_text) COUNT("probe_overflow_newcomer_has_text");
        }
    }

    Entry model_pop() {
        Entry e;
        e.code = 0;
        e.has_ptr = e.may_text = e.must_text = e.contains = false;
        if (!q.empty()) {
            e = q.front();
            q.pop_front();
            if (q.empty()) COUNT("probe_pop_to_empty");
        } else {
            COUNT("probe_pop_on_empty");
        }
        return e;
    }

    void check_count(const char *where) {
        if (v.violated) return;
        int n = SCPI_ErrorCount(w.ctx);
        if (n != (int) q.size())
            v.fail("count", fmt("have=%d want=%zu", n, q.size()), fmt("%s: SCPI_ErrorCount=%d, reference FIFO holds %zu (capacity %d)", where, n, q.size(), cap));
#if SIM_HAS_INFO && !SIM_HEAP
        if (!v.violated && (long) g_alloc.live.size() != live_expected())
            v.fail("ownership", fmt("live=%zu want=%ld", g_alloc.live.size(), live_expected()),
                   fmt("%s: %zu device-dependent texts are allocated but the reference queue owns %ld", where, g_alloc.live.size(), live_expected()));
#endif
    }

    void check_popped(const Entry &m, int code, bool has_text, const std::string &text, const char *via) {
        if (v.violated) return;
        if (code != m.code) {
            v.fail("fifo-order", fmt("via=%s have=%d want=%d", via, code, m.code), fmt("%s returned code %d, reference FIFO says %d", via, code, m.code));
            return;
        }
        if (has_text && !text.empty()) {
            if (!m.may_text || (m.contains ? text.find(m.text) == std::string::npos : text != m.text))
                v.fail("text-foreign", fmt("via=%s maytext=%d", via, m.may_text),
                       fmt("%s returned text \"%s\" for code %d, pushed text was %s\"%s\"", via, c_escape(text).c_str(), code, m.may_text ? "" : "(none) ",
                           c_escape(m.text).c_str()));
        } else if (m.must_text) {
            v.fail("text-lost", fmt("via=%s", via),
                   fmt("%s returned no text for code %d although \"%s\" had to be stored (queue was empty / allocation succeeded)", via, code,
                       c_escape(m.text).c_str()));
        }
    }

    // oracle for one SYST:ERR? response (C18 rules; C10/C20 add equality with the model)
    void check_response(const std::string &out, const Entry &m, int count_before) {
        if (v.violated) return;
        int code = 0;
        std::string content, why;
        size_t esc = 0;
        if (!read_error_response(out, code, content, esc, why)) {
            v.fail("resp-malformed", why, fmt("SYST:ERR? wrote %s which is not <int>,\"<string>\": %s", c_escape(out).c_str(), why.c_str()));
            return;
        }
        if (code != m.code) {
            v.fail("fifo-order", fmt("via=query have=%d want=%d", code, m.code), fmt("SYST:ERR? reported code %d, reference FIFO says %d", code, m.code));
            return;
        }
        std::string desc = describe(code);
        // acceptable full contents
        std::vector<std::string> fulls;
        if (!m.must_text) fulls.push_back(desc);
        if (m.may_text) fulls.push_back(desc + ";" + m.text);
        bool ok = false, cut = false;
        std::string full_used;
        if (m.contains && m.may_text) {
            // parser-generated text: <desc>;<something containing the header as written> (texts are short, never cut)
            std::string pre = desc + ";";
            if (content.compare(0, pre.size(), pre) == 0 && content.find(m.text, pre.size()) != std::string::npos && content.size() <= 255) {
                int count_after2 = SCPI_ErrorCount(w.ctx);
                int want2 = (int) q.size();
                if (count_after2 != want2) v.fail("resp-not-consumed", fmt("before=%d after=%d", count_before, count_after2), "queue count did not drop over SYST:ERR?");
                return;
            }
        }
        for (auto &f : fulls) {
            if (content == f) {
                ok = true;
                full_used = f;
                break;
            }
        }
        if (!ok) {
            for (auto &f : fulls) {
                if (content.size() < f.size() && f.compare(0, content.size(), content) == 0) {
                    ok = cut = true;
                    full_used = f;
                    break;
                }
            }
        }
        if (!ok) {
            const char *rule = (m.must_text || (m.may_text && content.size() > desc.size())) ? "resp-text" : "resp-desc";
            v.fail(rule, fmt("code=%d", code),
                   fmt("SYST:ERR? content \"%s\" is not a prefix of \"%s\"", c_escape(content).c_str(), c_escape(fulls.empty() ? desc : fulls.back()).c_str()));
            return;
        }
        if (content.size() > 255) {
            v.fail("resp-too-long", fmt("len=%zu", content.size()), fmt("quoted content has %zu characters (> 255)", content.size()));
            return;
        }
        if (cut) {
            COUNT("probe_response_cut_at_limit");
            char next = full_used[content.size()];
            size_t need = next == '"' ? 2 : 1;
            // only a cut that is early even when the limit is counted on the escaped form is flagged
            bool text_dropped_whole = !m.must_text && content == desc;   // C20: "no text" reading
            if (!text_dropped_whole && esc + need <= 255) {
                v.fail("resp-cut-early", fmt("len=%zu esc=%zu", content.size(), esc),
                       fmt("response cut after %zu characters (%zu escaped) although \"%c\" would still fit in 255", content.size(), esc, next));
                return;
            }
        }
        int count_after = SCPI_ErrorCount(w.ctx);
        int want = (int) q.size();   // the reference FIFO has consumed the entry already (and taken a push made from inside the write callback)
        (void) count_before;
        if (count_after != want) v.fail("resp-not-consumed", fmt("before=%d after=%d", count_before, count_after), fmt("queue count %d -> %d over SYST:ERR?", count_before, count_after));
    }
};

QRun *g_q = nullptr;

void execute_queue(const Plan &plan, Verdict &v, Mode mode) {
    WorldCfg cfg;
    cfg.queue = (int) clampl(plan.k("queue", 4), 1, 32767);
    cfg.heap = (int) clampl(plan.k("heap", 64), 2, 700);
#if SIM_HEAP
    cfg.no_heap = (int) clampl(plan.k("no_heap", 0), 0, 2);
    if (cfg.no_heap) COUNT("deployment_without_text_heap");
#endif
    cfg.inbuf = (int) clampl(plan.k("inbuf", 256), 48, 400);
    cfg.wr_mode = (int) (plan.k("wr_mode", 0) & 3);
    g_alloc = AllocCtl();
    {
        World w(cfg);
        w.add_standard_commands();
        w.seal();
        QRun run(w, v, mode);
        g_q = &run;
        int tag_next = -1, tag_count = -1, tag_cls = -1;
        for (size_t i = 0; i < w.patterns.size(); i++) {
            if (w.patterns[i] == "SYSTem:ERRor[:NEXT]?") tag_next = (int) i;
            if (w.patterns[i] == "SYSTem:ERRor:COUNt?") tag_count = (int) i;
            if (w.patterns[i] == "*CLS") tag_cls = (int) i;
        }
        int count_before_handler = 0;
        size_t handlers_seen = 0;
        // every non-zero error callback is one push by the library (parser) unless announced by us
        bool fw_push_active = false;
        // firmware that raises an error from inside its write callback (transmit path stalled, ...): one-shot, armed by a
        // `wrpush` op, fires at the k-th write call made by a command handler other than the count query
        struct {
            bool on = false;
            long countdown = 0;
            int code = 0;
            size_t lenarg = 0;
            bool has_s = false;
            bool clear = false;   // SCPI_ErrorClear instead of a push
            std::string text;
        } armed;
        // firmware that refills the SCPI queue from its own backlog when told (error callback with 0) that the queue ran empty
        long refill_left = clampl(plan.k("errcb_refill", 0), 0, 3);
        bool cls_cleared_early = false;
        // firmware that services every error on the spot: its error callback moves the whole queue into a log of its own
        // (1 = SCPI_ErrorClear, 2 = SCPI_ErrorPop until empty). The entry being pushed is already in the queue then. Not combined
        // with the other re-entrant behaviours, no allocation faults, malloc and no-info builds only (in the static-heap build a
        // drain from inside a push that itself runs inside SYST:ERR? would release texts out of order, see DESIGN 6b).
        int drain = (int) clampl(plan.k("errcb_drain", 0), 0, 2);
        if (SIM_HEAP || refill_left > 0) drain = 0;
        bool in_drain = false;
        bool early_pop_valid = false;
        Entry early_pop;
        int early_before = 0;
        w.err_observer = [&](World &ww, int code) {
            if (code == 0) {
                // (a firmware push of code 0 also reports 0 through the callback: that is not the queue-empty notification)
                if (refill_left <= 0 || v.violated || fw_push_active) return;
                refill_left--;
                // bring the reference FIFO to the point the library is at: the entry was taken / the queue cleared before the notification
                UnitRec *u = ww.in_handler ? ww.unit() : nullptr;
                if (u && u->tag == tag_next && !early_pop_valid) {
                    early_before = (int) run.q.size();
                    early_pop = run.model_pop();
                    early_pop_valid = true;
                } else if (u && u->tag == tag_cls && !cls_cleared_early) {
                    run.q.clear();
                    cls_cleared_early = true;
                }
                int rcode = -(int) (300 + refill_left);
                bool saved = fw_push_active;
                fw_push_active = true;
                ww.fw_push(rcode, "backlog", 0);
                fw_push_active = saved;
                bool failed = g_alloc.last_failed;
                g_alloc.last_failed = false;
                run.model_push(rcode, true, "backlog", failed, false, true);
                run.expect_echo = false;
                COUNT("fault_push_inside_error_callback_on_empty");
                return;
            }
            if (fw_push_active) {
                // (for firmware pushes the reference FIFO has been updated before the call when a drain is configured)
                if (drain && !in_drain && !v.violated) {
                    in_drain = true;
                    COUNT("fault_error_callback_drains_the_queue");
                    if (drain == 1) {
                        run.q.clear();
                        SCPI_ErrorClear(ww.ctx);
                    } else {
                        int guard = 0;
                        while (SCPI_ErrorCount(ww.ctx) > 0 && guard++ < 40000) {
                            scpi_error_t e;
                            SCPI_ErrorPop(ww.ctx, &e);
                            Entry m = run.model_pop();
                            if (e.error_code != m.code && !v.violated)
                                v.fail("fifo-order", fmt("via=drain have=%d want=%d", e.error_code, m.code), fmt("drain inside the error callback popped %d, reference FIFO says %d", e.error_code, m.code));
#if SIM_HAS_INFO
                            ww.free_info(e.device_dependent_info);
#endif
                        }
                    }
                    in_drain = false;
                }
                return;
            }
            if (code == -350 && run.expect_echo) {
                run.expect_echo = false;
                return;
            }
            // parser-originated push: only -113 carries text (the unit as written)
            bool has_text = false;
            std::string text;
            bool contains = false;
            if (code == -113) {
                UnitRec *u = ww.unit();
                if (u) {
                    // the header as written: the unit text without leading blanks, up to the first blank / separator / terminator
                    size_t a = 0;
                    while (a < u->text.size() && (u->text[a] == ' ' || u->text[a] == '\t')) a++;
                    size_t b = a;
                    while (b < u->text.size() && !strchr(" \t;\r\n", u->text[b])) b++;
                    text = u->text.substr(a, b - a);
                    has_text = true;
                    contains = true;
                }
            }
            bool failed = g_alloc.last_failed;
            g_alloc.last_failed = false;
            if (has_text && failed) COUNT("fault_alloc_failed_parser_push");
            run.model_push(code, has_text, text, failed, contains);
            if (drain && !in_drain && !v.violated) {
                // the same servicing for errors the parser raised
                in_drain = true;
                COUNT("fault_error_callback_drains_the_queue");
                run.q.clear();
                run.expect_echo = false;
                SCPI_ErrorClear(ww.ctx);
                in_drain = false;
            }
        };
        w.observer = [&](World &ww, const char *where) {
            if (v.violated) return;
            if (!strcmp(where, "handler-end")) {
                UnitRec *u = ww.unit();
                if (!u) return;
                // the unit separator may be written together with the first bytes of a unit (either framing implementation)
                std::string uout = u->out;
                if (!uout.empty() && uout[0] == ';') uout.erase(0, 1);
                if (u->tag == tag_next) {
                    int before = early_pop_valid ? early_before : (int) run.q.size();
                    Entry m = early_pop_valid ? early_pop : run.model_pop();
                    early_pop_valid = false;
                    run.check_response(uout, m, before);
                    COUNT("error_queries");
                } else if (u->tag == tag_count) {
                    if (uout != std::to_string(run.q.size()))
                        v.fail("count", fmt("via=query have=%s want=%zu", uout.c_str(), run.q.size()),
                               fmt("SYST:ERR:COUN? wrote %s, reference FIFO holds %zu", c_escape(uout).c_str(), run.q.size()));
                } else if (u->tag == tag_cls) {
                    if (!run.q.empty() && run.live_expected() > 0) COUNT("probe_clear_with_texts_pending");
                    if (!cls_cleared_early) run.q.clear();
                    cls_cleared_early = false;
                }
                run.check_count("after handler");
                handlers_seen++;
            } else if (!strcmp(where, "unit-end") || !strcmp(where, "input-end")) {
                run.check_count(where);
            }
        };
        (void) count_before_handler;
        // a second instrument context with a queue and (in the static-heap build) a text heap of its own, answering SYST:ERR? from
        // inside the first one's write callback: its text is stored wrapped around the end of its heap
        std::unique_ptr<World> inner;
        long relay_countdown = -1;
        auto relay = [&]() {
            if (!inner) {
                WorldCfg ic;
                ic.queue = 3;
                ic.heap = 24;
                inner.reset(new World(ic));
                inner->add_standard_commands();
                inner->seal();
            }
            // rotate the inner heap so that the next text wraps, then queue one error with a known text and ask for it
            static const char *fill = "aaaaaaaaaaaaaa";
            static const char *text = "usb/fan-2 \"stalled\"";
            int c0;
            std::string t0;
            bool h0;
            uint64_t failed0 = g_alloc.failed;
            bool saved_last = g_alloc.last_failed;
            // (the heap rewinds whenever the queue drains, so a short entry is kept queued while the filler is released)
            inner->fw_clear();
            inner->fw_push(-100, fill, 0);
            inner->fw_push(-101, "k", 0);
            inner->fw_pop(c0, t0, h0);
            inner->fw_push(-200, text, 0);
            inner->fw_pop(c0, t0, h0);
            size_t o0 = inner->out.size();
            inner->input("SYST:ERR?\n");
            std::string got = inner->out.substr(o0);
            COUNT("fault_second_context_answers_error_query_inside_write_callback");
            // expected: -200,"Execution error[;usb/fan-2 ""stalled""]" + terminator (text or nothing in the static-heap build; no text without info)
            std::string d = std::string("-200,\"") + describe(-200);
            std::string with_text = d + ";usb/fan-2 \"\"stalled\"\"\"" + line_ending(), without = d + "\"" + line_ending();
            bool alloc_failed = g_alloc.failed != failed0;   // an injected allocation failure may have hit the second context's push
            g_alloc.last_failed = saved_last;
            bool ok = SIM_HAS_INFO ? (got == with_text || ((SIM_HEAP || alloc_failed) && got == without)) : got == without;
            if (!ok && !v.violated)
                v.fail("resp-text", "second-context", fmt("second context, asked from inside the write callback of the first, answered \"%s\"", c_escape(got).c_str()));
        };
        w.write_hook = [&](World &ww) {
            if (relay_countdown >= 0 && !v.violated && ww.in_handler) {
                if (relay_countdown-- == 0) relay();
            }
            if (!armed.on || v.violated || !ww.in_handler) return;
            UnitRec *u = ww.unit();
            if (!u || u->tag == tag_count) return;
            if (armed.countdown-- > 0) return;
            armed.on = false;
            if (u->tag == tag_next && !early_pop_valid) {
                // the library has taken the entry out of the queue before it started writing the response
                early_before = (int) run.q.size();
                early_pop = run.model_pop();
                early_pop_valid = true;
                COUNT("probe_push_while_error_response_is_sent");
            }
            if (armed.clear) {
                // the queue is cleared from inside the transmit path (e.g. a device-clear arriving on another channel)
#if SIM_HEAP
                // not when the clear would release queued texts AND a refilling error callback pushes right after it, while
                // SYST:ERR? still holds the older text it took out: the ring heap needs texts released in allocation order
                // (DESIGN 6b, "seen, not claimed"). A clear of a queue without texts, or without a refill, is fine.
                if (refill_left > 0) {
                    bool texts = false;
                    for (auto &e : run.q) texts |= e.may_text;
                    if (texts) return;
                }
#endif
                run.q.clear();
                ww.fw_clear();
                COUNT("fault_clear_inside_write_callback");
                return;
            }
            std::string text = armed.text;
            size_t nul = text.find('\0');
            if (nul != std::string::npos) text.resize(nul);
            std::string stored;
            if (armed.has_s) stored = text.substr(0, armed.lenarg ? std::min(armed.lenarg, text.size()) : std::min<size_t>(text.size(), 255));
            fw_push_active = true;
            ww.fw_push(armed.code, armed.has_s ? text.c_str() : nullptr, armed.lenarg);
            fw_push_active = false;
            bool failed = g_alloc.last_failed;
            g_alloc.last_failed = false;
            run.model_push(armed.code, armed.has_s, stored, failed, false, true);
            run.expect_echo = false;
            COUNT("fault_push_inside_write_callback");
        };

        std::vector<long> cuts;
        size_t cut_i = 0;
        uint64_t clock = 0;
        uint64_t ilv = 0;
        for (const Op &op : plan.ops) {
            if (v.violated) break;
            clock += 1;
            ilv = mix64(ilv * 31 + fnv1a(op.kind) + (op.has_s ? 1 : 0) + (uint64_t) (op.arg(2) ? 2 : 0));
            if (op.kind == "cuts") {
                cuts = op.a;
                cut_i = 0;
            } else if (op.kind == "push") {
                int code = (int) (int16_t) op.arg(0);
                size_t lenarg = (size_t) clampl(op.arg(1), 0, 1000);
                bool allocfail = op.arg(2) != 0;
                std::string text = op.s;
                size_t nul = text.find('\0');
                if (nul != std::string::npos) text.resize(nul);
                std::string stored;
                if (op.has_s) {
                    size_t eff = lenarg ? std::min(lenarg, text.size()) : std::min<size_t>(text.size(), 255);
                    stored = text.substr(0, eff);
                }
                bool ring_wrap = w.ctx->error_queue.wr < w.ctx->error_queue.rd || (w.ctx->error_queue.count && w.ctx->error_queue.wr == w.ctx->error_queue.rd);
                if (ring_wrap) COUNT("probe_ring_wrapped");
                bool was_full = (int) run.q.size() >= run.cap;
                if (was_full && run.cap >= 16384) COUNT("probe_overflow_on_huge_queue");
                if (was_full && !run.q.empty() && run.q.back().has_ptr && op.has_s) COUNT("probe_overflow_text_in_victim_and_newcomer");
                if (allocfail && op.has_s && SIM_HAS_INFO && !SIM_HEAP) {
                    g_alloc.fail_countdown = 0;
                    COUNT("fault_alloc_failed_fw_push");
                    if (was_full) COUNT("probe_alloc_failed_at_capacity");
                }
                if (drain) {
                    // the callback (which sees the entry already queued) empties the queue: reference first, no allocation fault
                    g_alloc.fail_countdown = -1;
                    run.model_push(code, op.has_s, stored, false);
                    run.expect_echo = false;
                }
                fw_push_active = true;
                w.fw_push(code, op.has_s ? text.c_str() : nullptr, lenarg);
                fw_push_active = false;
                bool failed = g_alloc.last_failed;
                g_alloc.last_failed = false;
                g_alloc.fail_countdown = -1;
                if (!drain) run.model_push(code, op.has_s, stored, failed && allocfail);
                run.expect_echo = false;
                run.check_count("after push");
                COUNT("fw_push");
            } else if (op.kind == "bulk_push" || op.kind == "bulk_pop") {
                // many text-less pushes / pops in one op (used to rotate very large rings); every one is checked against the model
                long nrep = clampl(op.arg(0), 0, 70000);
                for (long k = 0; k < nrep && !v.violated; k++) {
                    if (op.kind == "bulk_push") {
                        int code = (int) (1 + (k % 30000));
                        bool was_full2 = (int) run.q.size() >= run.cap;
                        fw_push_active = true;
                        SCPI_ErrorPush(w.ctx, (int16_t) code);
                        fw_push_active = false;
                        run.model_push(code, false, "", false);
                        run.expect_echo = false;
                        if (was_full2) COUNT("probe_overflow_on_huge_queue");
                    } else {
                        Entry m = run.model_pop();
                        scpi_error_t e;
                        SCPI_ErrorPop(w.ctx, &e);
                        if (e.error_code != m.code) v.fail("fifo-order", fmt("via=bulk have=%d want=%d", e.error_code, m.code), fmt("bulk pop %ld returned %d, reference FIFO says %d", k, e.error_code, m.code));
#if SIM_HAS_INFO
                        w.free_info(e.device_dependent_info);
#endif
                    }
                }
                run.check_count("after bulk op");
            } else if (op.kind == "churn") {
                // a controller that reads exactly one error per operation while the firmware raises one per operation: the queue
                // never drains, for tens of thousands of pushes
                long nrep = clampl(op.arg(0), 0, 70000);
                for (long k = 0; k < nrep && !v.violated; k++) {
                    int code = (int) (1 + (k % 30000));
                    fw_push_active = true;
                    SCPI_ErrorPush(w.ctx, (int16_t) code);
                    fw_push_active = false;
                    run.model_push(code, false, "", false);
                    run.expect_echo = false;
                    Entry m = run.model_pop();
                    scpi_error_t e;
                    SCPI_ErrorPop(w.ctx, &e);
                    if (e.error_code != m.code)
                        v.fail("fifo-order", fmt("via=churn have=%d want=%d", e.error_code, m.code), fmt("operation %ld of a push/pop churn returned %d, reference FIFO says %d", k, e.error_code, m.code));
#if SIM_HAS_INFO
                    w.free_info(e.device_dependent_info);
#endif
                }
                if (nrep >= 65536) COUNT("probe_more_than_65536_pushes_without_drain");
                run.check_count("after churn");
            } else if (op.kind == "pop") {
                Entry m = run.model_pop();
                int code;
                std::string text;
                bool has;
                w.fw_pop(code, text, has);
                run.check_popped(m, code, has, text, "SCPI_ErrorPop");
                run.check_count("after pop");
                COUNT("fw_pop");
            } else if (op.kind == "clear") {
                if (!run.q.empty() && run.live_expected() > 0) COUNT("probe_clear_with_texts_pending");
                run.q.clear();   // before the call: a refill from the error callback lands in the emptied queue
                w.fw_clear();
                run.check_count("after clear");
            } else if (op.kind == "count") {
                w.fw_count();
                run.check_count("count");
            } else if (drain && (op.kind == "wrpush" || op.kind == "wrclear" || op.kind == "wrrelay" || op.kind == "allocfail" || op.kind == "bulk_push" || op.kind == "churn")) {
                continue;   // not combined
            } else if (op.kind == "wrpush") {
                armed.on = true;
                armed.countdown = clampl(op.arg(0), 0, 12);
                armed.code = (int) (int16_t) op.arg(1);
                armed.lenarg = (size_t) clampl(op.arg(2), 0, 1000);
                armed.has_s = op.has_s;
                armed.text = op.s;
                armed.clear = false;
            } else if (op.kind == "wrrelay") {
                relay_countdown = clampl(op.arg(0), 0, 12);
            } else if (op.kind == "wrclear") {
                armed.on = true;
                armed.countdown = clampl(op.arg(0), 0, 12);
                armed.clear = true;
            } else if (op.kind == "allocfail") {
                // fail the k-th text allocation from now (lands in a parser push when followed by a message)
                g_alloc.fail_countdown = clampl(op.arg(0), 0, 5);
            } else if (op.kind == "msg" && op.has_s) {
                size_t pos = 0;
                while (pos < op.s.size() && !v.violated) {
                    long n = cuts.empty() ? (long) op.s.size() : cuts[cut_i++ % cuts.size()];
                    if (n < 1) n = 1;
                    long fre = (long) w.ctx->buffer.length - (long) w.ctx->buffer.position - 1;
                    if (n > fre) n = fre;
                    if (n < 1) {
                        w.flush_input();
                        continue;
                    }
                    if ((size_t) n > op.s.size() - pos) n = (long) (op.s.size() - pos);
                    w.input(op.s.data() + pos, (int) n);
                    pos += (size_t) n;
                }
                g_alloc.fail_countdown = -1;
                COUNT("controller_messages");
            }
            if (g_collect) {
                uint64_t st = (uint64_t) run.q.size() | ((uint64_t) w.ctx->error_queue.wr << 8) | ((uint64_t) w.ctx->error_queue.rd << 16) |
                              ((uint64_t) run.live_expected() << 24) | ((uint64_t) run.cap << 32);
#if SIM_HEAP
                st ^= mix64(((uint64_t) w.ctx->error_info_heap.wr << 20) | w.ctx->error_info_heap.count);
#endif
                g_sets.add("state", st);
            }
        }
        // final: drain through the API and compare with the model (every stored text released exactly once)
        if (!v.violated && plan.k("drain", 1)) {
            int guard = 0;
            while (!run.q.empty() && !v.violated && guard++ < 40000) {
                Entry m = run.model_pop();
                int code;
                std::string text;
                bool has;
                w.fw_pop(code, text, has);
                run.check_popped(m, code, has, text, "final drain");
            }
            run.check_count("after drain");
        }
        w.observer = nullptr;
        w.err_observer = nullptr;
        w.write_hook = nullptr;
        g_q = nullptr;
        if (g_collect) g_sets.add("interleaving", ilv ^ (uint64_t) run.cap);
        v.trace_hash = w.hash();
        v.nontrivial = !plan.ops.empty();
        v.sim_ms = clock;
    }
#if SIM_HAS_INFO && !SIM_HEAP
    // after the context is gone (its destructor clears the queue) no device-dependent text may still be allocated
    if (!v.violated && !g_alloc.live.empty())
        v.fail("leak", fmt("live=%zu", g_alloc.live.size()), fmt("%zu device-dependent texts still allocated after the queue was cleared", g_alloc.live.size()));
#endif
    g_alloc = AllocCtl();
}

// ---------------------------------------------------------------- generation
std::string gen_text(Rng &r, long idx, long maxlen, bool quotes) {
    static const char alpha[] = "abcdefghijklmnopqrstuvwxyzABCDEFGHIJKLMNOPQRSTUVWXYZ0123456789 _-.:,;!?()[]{}<>/=+*&%$#@^~|";
    std::string s = "t" + std::to_string(idx) + "_";
    long n = r.range(0, maxlen);
    while ((long) s.size() < n) s += alpha[r.below(sizeof alpha - 1)];
    if ((long) s.size() > n && n >= 0 && r.chance(1, 2)) s.resize((size_t) std::max(0L, n));
    if (quotes && !s.empty()) {
        long nq = r.range(0, 3);
        for (long i = 0; i < nq; i++) s[r.below(s.size())] = '"';
    }
    if (!s.empty() && r.chance(1, 6)) {
        // file names and messages in the instrument's own language: bytes >= 0x80 (UTF-8, Latin-1), among them the ones
        // whose low seven bits are a quote, a semicolon or a comma
        static const unsigned char hi[] = {0xA2, 0xC3, 0xA2, 0xBB, 0xAC, 0xB0, 0xE2, 0x84, 0xFF, 0x80, 0xA2};
        long nh = r.range(1, 4);
        for (long i = 0; i < nh; i++) s[r.below(s.size())] = (char) (r.chance(1, 2) ? hi[r.below(sizeof hi)] : (unsigned char) r.range(0x80, 0xFF));
    }
    return s;
}

int gen_code(Rng &r) {
    static const int listed[] = {-100, -101, -102, -103, -104, -108, -109, -113, -131, -138, -151, -170, -200, -224, -310, -350, -363, -400, -500, -800};
    switch (r.below(5)) {
        case 0: return listed[r.below(sizeof listed / sizeof listed[0])];
        case 4: return DESCS[r.below(sizeof DESCS / sizeof DESCS[0])].code;   // any code that has a description, wherever it stands in the list
        case 1: return (int) r.range(1, 300);
        case 2: return -(int) r.range(100, 900);
        default: return (int) (int16_t) r.below(65536);
    }
}

std::string gen_queue_msg(Rng &r, long &uniq) {
    std::string m;
    long nu = r.chance(2, 3) ? 1 : r.range(2, 4);
    for (long j = 0; j < nu; j++) {
        std::string u;
        switch (r.below(9)) {
            case 0:
            case 1:
            case 2: u = r.chance(1, 2) ? "SYST:ERR?" : (r.chance(1, 2) ? "SYSTem:ERRor:NEXT?" : "syst:err?"); break;
            case 3: u = "SYST:ERR:COUN?"; break;
            case 4: u = "*CLS"; break;
            case 5:
            case 6: u = "UNDEF" + std::to_string(uniq++) + (r.chance(1, 3) ? " 1,\"x\"" : ""); break;
            case 7: u = "*IDN? 1"; break;
            default: u = "*OPC"; break;
        }
        if (j) {
            m += ";";
            if (u[0] != '*') u = ":" + u;   // absolute headers only: no in-place path composition, so the -113 text is the unit as written
        }
        m += u;
    }
    static const char *term[] = {"\n", "\r\n", "\r"};
    m += term[r.below(3)];
    return m;
}

void generate_queue(Rng &r, const GenOpts &g, Plan &p, Mode mode) {
    bool thorough = g.tier == "thorough";
    bool heap = g.config == "heap";
    if (mode == M_C10 && r.chance(1, 400)) {
        // very large queue (capacity is an int16_t): rotate the ring, then overflow
        static const long caps[] = {16384, 16385, 20000, 32766, 32767};
        long cap = caps[r.below(5)];
        p.knob["queue"] = cap;
        p.knob["drain"] = r.chance(1, 2);
        long rot = r.chance(1, 2) ? r.range(1, 40) : r.range(1, cap - 1);
        p.ops.push_back(Op("bulk_push", {cap}));
        p.ops.push_back(Op("bulk_pop", {rot}));
        p.ops.push_back(Op("bulk_push", {rot}));
        long extra = r.range(1, 3);
        for (long i = 0; i < extra; i++) p.ops.push_back(Op("push", {-(long) r.range(100, 300), 0, 0}, "t" + std::to_string(i)));
        p.ops.push_back(Op("bulk_pop", {r.range(1, 5)}));
        p.ops.push_back(Op("count"));
        return;
    }
    if (mode == M_C10 && r.chance(1, 600)) {
        // a permanent backlog: capacity 3..40 (mostly not a power of two), a few entries pending, then 65536+ push/pop pairs
        long cap = r.range(3, 40);
        p.knob["queue"] = cap;
        long pending = r.range(1, cap - 1);
        for (long i = 0; i < pending; i++) p.ops.push_back(Op("push", {-(long) r.range(100, 300), 0, 0}));
        p.ops.push_back(Op("churn", {r.chance(2, 3) ? r.range(65530, 66200) : r.range(1000, 70000)}));
        p.ops.push_back(Op("push", {-222, 0, 0}, "after"));
        p.ops.push_back(Op("count"));
        return;
    }
    p.knob["queue"] = r.chance(1, 2) ? r.range(1, 3) : r.range(1, 6);
    if (heap && r.chance(1, 25)) p.knob["no_heap"] = r.range(1, 2);
    if (heap) {
        p.knob["heap"] = mode == M_C18 ? (r.chance(1, 2) ? 600 : r.range(16, 300)) : (r.chance(1, 8) ? 600 : (r.chance(1, 2) ? r.range(2, 12) : r.range(2, 64)));
    }
    if (r.chance(1, 6)) p.knob["wr_mode"] = r.range(1, 3);
    if (r.chance(1, 8)) p.knob["errcb_refill"] = r.range(1, 3);
    else if (!heap && r.chance(1, 10)) p.knob["errcb_drain"] = r.range(1, 2);
    long n;
    if (r.chance(1, 40))
        n = r.range(100, thorough ? 10000 : 1500);
    else if (r.chance(1, 6))
        n = r.range(20, 100);
    else
        n = r.range(1, 12);
    int allocp = (int) r.below(4);   // 0: never, 1: 5 %, 2: 30 %, 3: always
    if (g.config != "malloc") allocp = 0;
    long uniq = 0;
    long textmax = mode == M_C18 ? 400 : (heap ? p.knob["heap"] + 3 : (r.chance(1, 10) ? 300 : 40));
    bool quotes = mode == M_C18 || r.chance(1, 3);
    for (long i = 0; i < n; i++) {
        int kind = (int) r.below(mode == M_C18 ? 8 : 12);
        if (mode == M_C18 && heap && p.knob["heap"] == 600 && r.chance(1, 12)) {
            // the place where the heap wraps and the place where the response reaches its 255 characters made to coincide (give or
            // take two), with a quote on the last character before the wrap (or next to it)
            int code = gen_code(r);
            long dl = (long) strlen(describe(code));
            long q_inside = r.range(0, 2);
            long l1 = 254 - dl - q_inside + r.range(-2, 2);   // raw length of the piece in front of the wrap
            if (l1 >= 4 && l1 < 590) {
                long wr = 600 - l1;                           // where that text has to start
                long fill = wr - 3;                           // filler text + NUL, then "k" + NUL
                if (fill >= 1 && fill <= 590) {
                    std::string tf((size_t) fill, 'f'), t((size_t) l1, 'p');
                    for (long k = 0; k < q_inside; k++) t[(size_t) r.below((uint64_t) l1 - 1)] = '"';
                    t[(size_t) l1 - 1] = r.chance(3, 4) ? '"' : 'z';
                    std::string tail = std::string(1, r.chance(1, 4) ? '"' : 'T') + "ail of the text";
                    p.ops.push_back(Op("clear"));
                    p.ops.push_back(Op("push", {-100, fill, 0}, tf));   // explicit length: longer than the automatic limit of 255
                    p.ops.push_back(Op("push", {-101, 0, 0}, "k"));
                    p.ops.push_back(Op("pop"));
                    p.ops.push_back(Op("push", {code, 0, 0}, t + tail));
                    p.ops.push_back(Op("msg", {}, "SYST:ERR?;:SYST:ERR?\n"));
                    continue;
                }
            }
        }
        if (mode == M_C18) {
            // pushes with long/quoted texts, queries, some pops to move the heap cursor
            if (kind <= 3) {
                long len;
                switch (r.below(5)) {
                    case 0: len = r.range(0, 30); break;
                    case 1: len = r.range(180, 260); break;
                    case 2: len = r.range(0, 400); break;
                    default: len = r.range(0, 120); break;
                }
                std::string t = gen_text(r, uniq++, len, false);
                t.resize((size_t) len, 'x');
                int code = gen_code(r);
                // quotes at and around the 255 boundary of description;text
                size_t dl = strlen(describe(code)) + 1;
                long nq = r.range(0, 3);
                for (long k = 0; k < nq && !t.empty(); k++) {
                    long posq = r.chance(2, 3) ? (long) (255 - dl) + r.range(-3, 2) : (long) r.below(t.size());
                    if (posq >= 0 && posq < (long) t.size()) t[(size_t) posq] = '"';
                }
                long lenarg = r.chance(1, 2) ? 0 : (r.chance(1, 2) ? (long) t.size() : r.range(1, 420));
                p.ops.push_back(Op("push", {code, lenarg, 0}, t));
            } else if (kind <= 5) {
                if (r.chance(1, 8)) p.ops.push_back(Op("wrpush", {(long) r.below(7), (long) gen_code(r), 0}, gen_text(r, uniq++, r.range(0, 60), true)));
                if (r.chance(1, 10)) p.ops.push_back(Op("wrrelay", {(long) r.below(8)}));
                p.ops.push_back(Op("msg", {}, r.chance(1, 4) ? "SYST:ERR?;:SYST:ERR?\n" : "SYST:ERR?\r\n"));
            } else if (kind == 6) {
                p.ops.push_back(Op("pop"));
            } else {
                p.ops.push_back(Op(r.chance(1, 2) ? "count" : "clear"));
            }
            continue;
        }
        switch (kind) {
            case 0:
            case 1:
            case 2:
            case 3: {
                int code = gen_code(r);
                bool fail = allocp == 3 || (allocp == 2 && r.chance(3, 10)) || (allocp == 1 && r.chance(1, 20));
                if (r.chance(1, 4)) {
                    p.ops.push_back(Op("push", {code, 0, 0}));
                } else {
                    std::string t = gen_text(r, uniq++, textmax, quotes);
                    if (textmax >= 300 && r.chance(1, 3)) {
                        // lengths at the automatic-length limit
                        size_t want = (size_t) (255 + r.range(-2, 2));
                        while (t.size() < want) t += (char) ('a' + t.size() % 26);
                        t.resize(want);
                    }
                    long lenarg = r.chance(1, 2) ? 0 : (r.chance(1, 2) ? (long) t.size() : r.range(1, (long) t.size() + 3));
                    p.ops.push_back(Op("push", {code, lenarg, fail ? 1 : 0}, t));
                }
                break;
            }
            case 4:
            case 5: p.ops.push_back(Op("pop")); break;
            case 6: p.ops.push_back(Op(r.chance(1, 3) ? "clear" : "count")); break;
            case 7:
                if (allocp && r.chance(1, 2)) p.ops.push_back(Op("allocfail", {(long) r.below(3)}));
                p.ops.push_back(Op("msg", {}, gen_queue_msg(r, uniq)));
                break;
            case 8:
                if (r.chance(1, 3)) {
                    std::vector<long> c;
                    long nc = r.range(1, 3);
                    for (long j = 0; j < nc; j++) c.push_back(r.chance(1, 3) ? 1 : r.range(1, 12));
                    p.ops.push_back(Op("cuts", c));
                }
                p.ops.push_back(Op("msg", {}, gen_queue_msg(r, uniq)));
                break;
            default:
                if (heap && r.chance(1, 8)) {
                    // make the text at the head of the queue one that is stored around the end of the heap, then answer it while a
                    // second context answers a wrapped text of its own
                    // (the heap rewinds whenever the queue drains: a short entry stays queued while the filler is released)
                    long hs = p.knob["heap"];
                    size_t a = (size_t) std::max(1L, hs * 2 / 3), c = (size_t) std::max(2L, hs / 2);
                    std::string ta = gen_text(r, uniq++, (long) a, false), tc = gen_text(r, uniq++, (long) c, quotes);
                    ta.resize(a, 'f');
                    tc.resize(c, 'w');
                    p.ops.push_back(Op("clear"));
                    p.ops.push_back(Op("push", {-(long) r.range(100, 300), 0, 0}, ta));
                    p.ops.push_back(Op("push", {-(long) r.range(100, 300), 0, 0}, "k"));
                    p.ops.push_back(Op("pop"));
                    p.ops.push_back(Op("push", {-(long) r.range(100, 300), 0, 0}, tc));
                    p.ops.push_back(Op("msg", {}, "SYST:ERR?\n"));
                    p.ops.push_back(Op("wrrelay", {(long) r.below(8)}));
                    p.ops.push_back(Op("msg", {}, "SYST:ERR?\n"));
                    break;
                }
                if (r.chance(1, 12)) p.ops.push_back(Op("wrrelay", {(long) r.below(8)}));
                if (r.chance(1, 20)) p.ops.push_back(Op("wrclear", {(long) r.below(7)}));
                else if (r.chance(1, 5)) {
                    if (r.chance(1, 4))
                        p.ops.push_back(Op("wrpush", {(long) r.below(7), (long) gen_code(r), 0}));
                    else
                        p.ops.push_back(Op("wrpush", {(long) r.below(7), (long) gen_code(r), 0}, gen_text(r, uniq++, textmax, quotes)));
                }
                p.ops.push_back(Op("msg", {}, "SYST:ERR?\n"));
                break;
        }
    }
}

void gen_c10(Rng &r, const GenOpts &g, Plan &p) { generate_queue(r, g, p, M_C10); }
void gen_c20(Rng &r, const GenOpts &g, Plan &p) { generate_queue(r, g, p, M_C20); }
void gen_c18(Rng &r, const GenOpts &g, Plan &p) { generate_queue(r, g, p, M_C18); }
void exec_c10(const Plan &p, Verdict &v) { execute_queue(p, v, M_C10); }
void exec_c20(const Plan &p, Verdict &v) { execute_queue(p, v, M_C20); }
void exec_c18(const Plan &p, Verdict &v) { execute_queue(p, v, M_C18); }

const Property C10 = {
    "C10",
    "The error queue is a bounded FIFO that marks overflow and owns its texts",
    {"malloc", "noinfo"},
    gen_c10,
    exec_c10,
    {"probe_ring_wrapped", "probe_overflow_text_in_victim_and_newcomer", "probe_clear_with_texts_pending", "probe_alloc_failed_at_capacity",
     "probe_pop_to_empty", "probe_pop_on_empty", "fault_queue_overflow", "fault_alloc_failed_fw_push", "fault_alloc_failed_parser_push", "probe_overflow_on_huge_queue", "probe_more_than_65536_pushes_without_drain"},
    "seeded histories of 1..1500 (thorough: ..10000) operations {SCPI_ErrorPush[Ex] with unique texts / explicit or automatic length, SCPI_ErrorPop + "
    "release, SCPI_ErrorClear, SCPI_ErrorCount, controller messages with SYST:ERR?, SYST:ERR:COUN?, *CLS and undefined headers} on queues of capacity "
    "1..6, allocation failures injected through the wrapped strndup per push; reference FIFO + allocation ledger compared after every operation. Also: capacities 16384..32767 with rotated rings, 66000 push/pop pairs on a never-empty queue, texts of 253..257 and up to 300 characters with bytes >= 0x80, explicit lengths beyond the text, pushes / clears / a second context's SYST:ERR? from inside the write callback, an error callback that refills or drains the queue. "
    "distinct_nontrivial = distinct canonical trace hashes of non-empty histories.",
};
const Property C20 = {
    "C20",
    "The allocation-free build stores error texts intact or not at all",
    {"heap"},
    gen_c20,
    exec_c20,
    {"probe_ring_wrapped", "probe_pop_to_empty", "fault_queue_overflow", "probe_overflow_newcomer_has_text", "fault_push_inside_write_callback",
     "probe_push_while_error_response_is_sent"},
    "heap build; histories as for C10 with heap sizes 2..64 (and 600), texts of length 0..heap+3; reference queue 'exactly the pushed text or nothing', "
    "text mandatory when the queue was empty and the text fits; exact-size heap under ASan. Also: no heap registered / heap of length 0, heaps up to 700, texts wrapped around the heap end while a second context answers a wrapped text of its own, pushes and clears from inside the write callback during SYST:ERR?, refilling error callback. distinct_nontrivial = distinct canonical trace hashes.",
};
const Property C18 = {
    "C18",
    "The error query always yields one well-formed, bounded error response",
    {"malloc", "heap", "user", "noinfouser"},
    gen_c18,
    exec_c18,
    {"probe_response_cut_at_limit", "error_queries"},
    "codes with and without description, texts of length 0..400 with 0..3 double quotes at and around the 255 boundary, preceded by seeded push/pop "
    "histories that move the heap cursor (heap build: texts split at the ring wrap); every SYST:ERR? response parsed by an independent 488.2 reader. Also: 266 user error descriptions (quotes, semicolon, empty, long) in configurations user and noinfouser, the wrap aligned with the 255 boundary, bytes >= 0x80, re-entrant callbacks as in C10/C20. "
    "distinct_nontrivial = distinct canonical trace hashes.",
};
PropertyRegistrar r10(&C10), r20(&C20), r18(&C18);

}   // namespace
