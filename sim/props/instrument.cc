#include "instrument.h"

#include <cmath>

namespace {

const scpi_choice_def_t trigger_source[] = {
    {"BUS", 5},
    {"IMMediate", 6},
    {"EXTernal", 7},
    SCPI_CHOICE_LIST_END,
};

std::string bits64(double d) {
    uint64_t u;
    memcpy(&u, &d, 8);
    return fmt("%016llx", (unsigned long long) u);
}
std::string bits32(float f) {
    uint32_t u;
    memcpy(&u, &f, 4);
    return fmt("%08x", u);
}

bool params_left(scpi_t *c) {
    lex_state_t *s = &c->param_list.lex_state;
    return s->pos < s->buffer + s->len;
}

// exact-size heap buffer: an off-by-one write by the library lands in an ASan red zone
struct XBuf {
    char *p;
    size_t n;
    explicit XBuf(size_t n_) : p((char *) malloc(n_)), n(n_) {
        if (n) memset(p, 0x5A, n);
    }
    ~XBuf() { free(p); }
};

// ---------------------------------------------------------------- typed handlers
template <class T, class F> scpi_result_t typed_query(World &w, const char *name, F reader, std::function<void(scpi_t *, T)> emit, std::function<std::string(T)> show) {
    T val{};
    bool ok = reader(w.ctx, &val, TRUE);
    w.note(fmt("%s=%d:%s", name, ok, ok ? show(val).c_str() : "-"));
    if (!ok) return SCPI_RES_ERR;
    emit(w.ctx, val);
    return SCPI_RES_OK;
}

scpi_result_t h_echo(World &w) {
    UnitRec *u = w.unit();
    read_all_params(w, u, true);
    if (!u) return SCPI_RES_OK;
    bool query = !u->cmd_raw.empty() && u->cmd_raw.back() == '?';
    if (!query) return SCPI_RES_OK;
    // one result item per parameter, chosen by its type (deterministic in the parameter)
    std::vector<ParamRec> ps = u->params;
    for (auto &p : ps) {
        switch (p.type) {
            case SCPI_TOKEN_HEXNUM:
            case SCPI_TOKEN_OCTNUM:
            case SCPI_TOKEN_BINNUM: {
                int base = p.type == SCPI_TOKEN_HEXNUM ? 16 : p.type == SCPI_TOKEN_OCTNUM ? 8 : 2;
                unsigned long long x = strtoull(p.bytes.c_str(), nullptr, base);
                SCPI_ResultUInt64Base(w.ctx, x, (int8_t) base);
                break;
            }
            case SCPI_TOKEN_DECIMAL_NUMERIC_PROGRAM_DATA:
            case SCPI_TOKEN_DECIMAL_NUMERIC_PROGRAM_DATA_WITH_SUFFIX: SCPI_ResultDouble(w.ctx, strtod(p.bytes.c_str(), nullptr)); break;
            case SCPI_TOKEN_PROGRAM_MNEMONIC: SCPI_ResultCharacters(w.ctx, p.bytes.data(), p.bytes.size()); break;
            case SCPI_TOKEN_SINGLE_QUOTE_PROGRAM_DATA:
            case SCPI_TOKEN_DOUBLE_QUOTE_PROGRAM_DATA: {
                std::string t = p.bytes.size() >= 2 ? p.bytes.substr(1, p.bytes.size() - 2) : std::string();
                for (auto &ch : t)
                    if (ch == 0) ch = '0';
                SCPI_ResultText(w.ctx, t.c_str());
                break;
            }
            case SCPI_TOKEN_ARBITRARY_BLOCK_PROGRAM_DATA: SCPI_ResultArbitraryBlock(w.ctx, p.bytes.data(), p.bytes.size()); break;
            case SCPI_TOKEN_PROGRAM_EXPRESSION: SCPI_ResultBool(w.ctx, TRUE); break;
            default: SCPI_ResultInt32(w.ctx, -1); break;
        }
    }
    return SCPI_RES_OK;
}

scpi_result_t h_numbers(World &w) {
    int32_t numbers[2] = {-7, -7};
    SCPI_CommandNumbers(w.ctx, numbers, 2, 1);
    // a handler that only wants the first suffix (or none): arrays shorter than the number of '#' in its pattern, exact size
    {
        XBuf one(sizeof(int32_t)), none(0);
        SCPI_CommandNumbers(w.ctx, (int32_t *) one.p, 1, 1);
        SCPI_CommandNumbers(w.ctx, (int32_t *) none.p, 0, 1);
    }
    w.note(fmt("numbers=%d,%d", numbers[0], numbers[1]));
    return SCPI_RES_OK;
}

scpi_result_t h_chanlist(World &w) {
    scpi_parameter_t p;
    if (!SCPI_Parameter(w.ctx, &p, TRUE)) return SCPI_RES_ERR;
    for (int idx = 0; idx < 6; idx++) {
        scpi_bool_t is_range = FALSE;
        int32_t from[3] = {0, 0, 0}, to[3] = {0, 0, 0};
        size_t dims = 0;
        scpi_expr_result_t r = SCPI_ExprChannelListEntry(w.ctx, &p, idx, &is_range, from, to, 3, &dims);
        w.note(fmt("chan[%d]=%d", idx, (int) r));
        if (r != SCPI_EXPR_OK) break;
        size_t d = dims < 3 ? dims : 3;
        std::string s;
        for (size_t k = 0; k < d; k++) s += fmt(" %d", from[k]);
        if (is_range)
            for (size_t k = 0; k < d; k++) s += fmt(" :%d", to[k]);
        w.note(fmt("  range=%d dims=%zu%s", is_range, dims, s.c_str()));
    }
    return SCPI_RES_OK;
}

scpi_result_t h_numlist(World &w) {
    scpi_parameter_t p;
    if (!SCPI_Parameter(w.ctx, &p, TRUE)) return SCPI_RES_ERR;
    for (int idx = 0; idx < 6; idx++) {
        scpi_bool_t is_range = FALSE;
        int32_t a = 0, b = 0;
        scpi_expr_result_t r = SCPI_ExprNumericListEntryInt(w.ctx, &p, idx, &is_range, &a, &b);
        w.note(fmt("num[%d]=%d %d %d %d", idx, (int) r, r == SCPI_EXPR_OK ? is_range : 0, r == SCPI_EXPR_OK ? a : 0, (r == SCPI_EXPR_OK && is_range) ? b : 0));
        if (r != SCPI_EXPR_OK) break;
    }
    return SCPI_RES_OK;
}

scpi_result_t h_text(World &w) {
    XBuf b(20);
    size_t n = 0;
    if (!SCPI_ParamCopyText(w.ctx, b.p, b.n, &n, TRUE)) return SCPI_RES_ERR;
    std::string t(b.p, n < b.n ? n : b.n);
    w.note("text=" + c_escape(t));
    UnitRec *u = w.unit();
    if (u && !u->cmd_raw.empty() && u->cmd_raw.back() == '?') {
        for (auto &ch : t)
            if (ch == 0) ch = '0';
        SCPI_ResultText(w.ctx, t.c_str());
    }
    return SCPI_RES_OK;
}

scpi_result_t h_arb(World &w) {
    const char *d = nullptr;
    size_t n = 0;
    if (!SCPI_ParamArbitraryBlock(w.ctx, &d, &n, TRUE)) return SCPI_RES_ERR;
    w.note("arb=" + hexs(std::string(d, n)));
    SCPI_ResultArbitraryBlock(w.ctx, d, n);
    return SCPI_RES_OK;
}

scpi_result_t h_number(World &w) {
    scpi_number_t num;
    memset(&num, 0, sizeof num);
    if (!SCPI_ParamNumber(w.ctx, scpi_special_numbers_def, &num, TRUE)) return SCPI_RES_ERR;
    XBuf b(40);
    size_t n = SCPI_NumberToStr(w.ctx, scpi_special_numbers_def, &num, b.p, b.n);
    w.note(fmt("number special=%d unit=%d base=%d str=%s", num.special, (int) num.unit, (int) num.base, c_escape(std::string(b.p, n < b.n ? n : b.n)).c_str()));
    UnitRec *u = w.unit();
    if (u && !u->cmd_raw.empty() && u->cmd_raw.back() == '?') SCPI_ResultCharacters(w.ctx, b.p, n < b.n ? n : b.n);
    return SCPI_RES_OK;
}

scpi_result_t h_multi(World &w) {
    SCPI_ResultInt32(w.ctx, -12);
    SCPI_ResultText(w.ctx, "a\"b");
    SCPI_ResultDouble(w.ctx, 1.5);
    SCPI_ResultBool(w.ctx, TRUE);
    SCPI_ResultArbitraryBlock(w.ctx, "x;\r\ny", 5);
    SCPI_ResultUInt32Base(w.ctx, 255, 16);
    return SCPI_RES_OK;
}

scpi_result_t h_opt(World &w) {
    int32_t a = -1, b = -1;
    bool ra = SCPI_ParamInt32(w.ctx, &a, FALSE);
    bool rb = ra ? SCPI_ParamInt32(w.ctx, &b, FALSE) : false;
    w.note(fmt("opt %d:%d %d:%d", ra, ra ? a : -1, rb, rb ? b : -1));
    if (SCPI_ParamErrorOccurred(w.ctx)) return SCPI_RES_ERR;
    UnitRec *u = w.unit();
    if (u && !u->cmd_raw.empty() && u->cmd_raw.back() == '?') {
        SCPI_ResultInt32(w.ctx, a);
        SCPI_ResultInt32(w.ctx, b);
    }
    return SCPI_RES_OK;
}

scpi_result_t h_arrays(World &w) {
    int32_t i32[4];
    double d[4];
    size_t n1 = 0, n2 = 0;
    bool r1 = SCPI_ParamArrayInt32(w.ctx, i32, 2, &n1, SCPI_FORMAT_ASCII, TRUE);
    bool r2 = r1 && params_left(w.ctx) ? SCPI_ParamArrayDouble(w.ctx, d, 4, &n2, SCPI_FORMAT_ASCII, FALSE) : false;
    std::string s = fmt("arrays %d:%zu %d:%zu", r1, n1, r2, n2);
    for (size_t k = 0; k < n1 && k < 2; k++) s += fmt(" %d", i32[k]);
    for (size_t k = 0; r2 && k < n2 && k < 4; k++) s += " " + bits64(d[k]);
    w.note(s);
    if (!r1) return SCPI_RES_ERR;
    UnitRec *u = w.unit();
    if (u && !u->cmd_raw.empty() && u->cmd_raw.back() == '?') {
        SCPI_ResultArrayInt32(w.ctx, i32, n1 < 2 ? n1 : 2, SCPI_FORMAT_ASCII);
        if (r2 && n2) SCPI_ResultArrayDouble(w.ctx, d, n2 < 4 ? n2 : 4, SCPI_FORMAT_SWAPPED);
    }
    return SCPI_RES_OK;
}

// ---------------------------------------------------------------- torture (C01)
scpi_result_t h_torture(World &w, const InstrOpts &o) {
    scpi_t *c = w.ctx;
    UnitRec *u = w.unit();
    bool query = u && !u->cmd_raw.empty() && u->cmd_raw.back() == '?';
    lex_state_t saved = c->param_list.lex_state;
    int_fast16_t saved_ic = c->input_count;
    auto rewind = [&] {
        c->param_list.lex_state = saved;
        c->input_count = saved_ic;
    };
    size_t tb = (size_t) clampl(o.tb, 0, 64);

    // pass A: raw parameters, every conversion and every expression API
    scpi_parameter_t p;
    int n = 0;
    while (n++ < 40 && SCPI_Parameter(c, &p, FALSE)) {
        (void) SCPI_ParamIsValid(&p);
        (void) SCPI_ParamIsNumber(&p, TRUE);
        (void) SCPI_ParamIsNumber(&p, FALSE);
        int32_t i32 = 0;
        uint32_t u32 = 0;
        int64_t i64 = 0;
        uint64_t u64 = 0;
        float f = 0;
        double d = 0;
        SCPI_ParamToInt32(c, &p, &i32);
        SCPI_ParamToUInt32(c, &p, &u32);
        SCPI_ParamToInt64(c, &p, &i64);
        SCPI_ParamToUInt64(c, &p, &u64);
        SCPI_ParamToFloat(c, &p, &f);
        SCPI_ParamToDouble(c, &p, &d);
        int32_t tag = 0;
        SCPI_ParamToChoice(c, &p, trigger_source, &tag);
        for (int idx = 0; idx < 4; idx++) {
            scpi_bool_t isr = FALSE;
            scpi_parameter_t a, b;
            SCPI_ExprNumericListEntry(c, &p, idx, &isr, &a, &b);
            int32_t x = 0, y = 0;
            SCPI_ExprNumericListEntryInt(c, &p, idx, &isr, &x, &y);
            double dx = 0, dy = 0;
            SCPI_ExprNumericListEntryDouble(c, &p, idx, &isr, &dx, &dy);
            for (size_t cap = 0; cap <= 3; cap += (cap == 0 ? 1 : 2)) {
                XBuf vf(cap * sizeof(int32_t)), vt(cap * sizeof(int32_t));
                size_t dims = 0;
                SCPI_ExprChannelListEntry(c, &p, idx, &isr, (int32_t *) vf.p, (int32_t *) vt.p, cap, &dims);
            }
        }
        if (query && n <= 3) {
            SCPI_ResultInt32(c, i32);
            SCPI_ResultUInt32Base(c, u32, (int8_t) (n == 1 ? 16 : n == 2 ? 8 : 2));
            SCPI_ResultInt64(c, i64);
            SCPI_ResultUInt64Base(c, u64, 10);
            SCPI_ResultFloat(c, f);
            SCPI_ResultDouble(c, d);
        }
    }

    // the library's own number formatters, called by the firmware with buffers of its own choosing (display cells):
    // 0..64 bytes, exact fits included
    {
        int64_t val = (int64_t) (o.variant - 100) * 0x0102030405LL + n;
        for (size_t cap : {tb, (size_t) (o.variant % 34), (size_t) 0, (size_t) 1, (size_t) 16}) {
            XBuf b1(cap), b2(cap), b3(cap), b4(cap), b5(cap), b6(cap);
            (void) SCPI_Int32ToStr((int32_t) val, b1.p, b1.n);
            (void) SCPI_UInt32ToStrBase((uint32_t) val, b2.p, b2.n, (int8_t) ((o.variant % 3 == 0) ? 2 : (o.variant % 3 == 1) ? 16 : 8));
            (void) SCPI_Int64ToStr(val, b3.p, b3.n);
            (void) SCPI_UInt64ToStrBase((uint64_t) val, b4.p, b4.n, (int8_t) ((o.variant % 2) ? 2 : 10));
            if (cap >= 1) {   // (a zero-length buffer is C15's business: strlen of nothing / __s[-1], see DESIGN 6b "observed")
                (void) SCPI_FloatToStr((float) val * 0.001f, b5.p, b5.n);
                (void) SCPI_DoubleToStr((double) val * 1e-7, b6.p, b6.n);
            }
        }
    }

    // names the firmware received earlier and kept in exact-size storage (no terminator behind them), matched later with the
    // length-taking pattern test
    {
        static const char *pats[] = {"CHannel#", "TORTure:SUB#[:OPT]?", "OUTPut#:STATe", "TEST#:NUMbers#", "*IDN?", "[:MEASure]:VOLTage[:DC]?"};
        std::string names[] = {"CH12", "ch3", "TORT:SUB18?", "OUTP2:STAT", "TEST1:NUM2", "CHANNEL007", u ? u->cmd_raw : std::string("X9")};
        for (auto &nm : names) {
            XBuf b(nm.size());
            if (b.n) memcpy(b.p, nm.data(), b.n);
            for (auto pt : pats) (void) SCPI_Match(pt, b.p, b.n);
        }
    }

    // numbers made by the application itself (a stored set-point in a unit of the firmware's choosing, a special value),
    // formatted for display: every unit, base and tag, whatever unit table the context has
    {
        scpi_number_t num;
        memset(&num, 0, sizeof num);
        num.special = FALSE;
        num.unit = (scpi_unit_t) ((o.variant * 7 + n) % ((int) SCPI_UNIT_LITER + 1));
        num.base = (int8_t) ((o.variant % 5 == 0) ? 16 : (o.variant % 7 == 0 ? 2 : 10));
        num.content.value = (double) (o.variant - 100) * 0.37 * (double) n;
        XBuf b1(tb);
        (void) SCPI_NumberToStr(c, scpi_special_numbers_def, &num, b1.p, b1.n);
        num.special = TRUE;
        num.content.tag = (o.variant + n) % 12;
        XBuf b2(tb);
        (void) SCPI_NumberToStr(c, scpi_special_numbers_def, &num, b2.p, b2.n);
    }

    // pass B: typed readers in rotation
    rewind();
    for (int k = 0; k < 24 && params_left(c); k++) {
        switch ((k + o.variant) % 13) {
            case 0: {
                int32_t x = 0;
                if (SCPI_ParamInt32(c, &x, k % 2 == 0) && query) SCPI_ResultInt8(c, x);
                break;
            }
            case 1: {
                uint32_t x = 0;
                if (SCPI_ParamUInt32(c, &x, FALSE) && query) SCPI_ResultUInt16Base(c, x, 16);
                break;
            }
            case 2: {
                int64_t x = 0;
                if (SCPI_ParamInt64(c, &x, TRUE) && query) SCPI_ResultInt16(c, x);
                break;
            }
            case 3: {
                uint64_t x = 0;
                if (SCPI_ParamUInt64(c, &x, FALSE) && query) SCPI_ResultUInt8Base(c, x, 2);
                break;
            }
            case 4: {
                float x = 0;
                if (SCPI_ParamFloat(c, &x, FALSE) && query) SCPI_ResultFloat(c, x);
                break;
            }
            case 5: {
                double x = 0;
                if (SCPI_ParamDouble(c, &x, TRUE) && query) SCPI_ResultDouble(c, x);
                break;
            }
            case 6: {
                scpi_bool_t x = FALSE;
                if (SCPI_ParamBool(c, &x, FALSE) && query) SCPI_ResultBool(c, x);
                break;
            }
            case 7: {
                int32_t x = 0;
                if (SCPI_ParamChoice(c, trigger_source, &x, FALSE) && query) {
                    const char *nm = nullptr;
                    if (SCPI_ChoiceToName(trigger_source, x, &nm)) SCPI_ResultMnemonic(c, nm);
                }
                break;
            }
            case 8: {
                const char *s = nullptr;
                size_t l = 0;
                if (SCPI_ParamCharacters(c, &s, &l, FALSE) && query) SCPI_ResultCharacters(c, s, l);
                break;
            }
            case 9: {
                const char *s = nullptr;
                size_t l = 0;
                if (SCPI_ParamArbitraryBlock(c, &s, &l, FALSE) && query) SCPI_ResultArbitraryBlock(c, s, l);
                break;
            }
            case 10: {
                XBuf b(tb);
                size_t l = 0;
                if (SCPI_ParamCopyText(c, b.p, b.n, &l, FALSE) && query) {
                    std::string t(b.p, l < b.n ? l : b.n);
                    for (auto &ch : t)
                        if (ch == 0) ch = '0';
                    SCPI_ResultText(c, t.c_str());
                }
                break;
            }
            case 11: {
                scpi_number_t num;
                memset(&num, 0, sizeof num);
                if (SCPI_ParamNumber(c, scpi_special_numbers_def, &num, FALSE)) {
                    XBuf b(tb);
                    size_t l = SCPI_NumberToStr(c, scpi_special_numbers_def, &num, b.p, b.n);
                    if (query && l <= b.n) SCPI_ResultCharacters(c, b.p, l);
                }
                break;
            }
            default: {
                scpi_parameter_t q;
                SCPI_Parameter(c, &q, TRUE);
                break;
            }
        }
    }

    // pass C: array readers
    rewind();
    {
        size_t cnt = tb % 5, got = 0;
        switch (o.variant % 6) {
            case 0: {
                XBuf a(cnt * 4);
                if (SCPI_ParamArrayInt32(c, (int32_t *) a.p, cnt, &got, SCPI_FORMAT_ASCII, FALSE) && query)
                    SCPI_ResultArrayInt32(c, (int32_t *) a.p, got, (scpi_array_format_t) (o.tb % 3));
                break;
            }
            case 1: {
                XBuf a(cnt * 4);
                if (SCPI_ParamArrayUInt32(c, (uint32_t *) a.p, cnt, &got, SCPI_FORMAT_ASCII, TRUE) && query)
                    SCPI_ResultArrayUInt32(c, (uint32_t *) a.p, got, (scpi_array_format_t) (o.tb % 3));
                break;
            }
            case 2: {
                XBuf a(cnt * 8);
                if (SCPI_ParamArrayInt64(c, (int64_t *) a.p, cnt, &got, SCPI_FORMAT_ASCII, FALSE) && query)
                    SCPI_ResultArrayInt64(c, (int64_t *) a.p, got, (scpi_array_format_t) (o.tb % 3));
                break;
            }
            case 3: {
                XBuf a(cnt * 8);
                if (SCPI_ParamArrayUInt64(c, (uint64_t *) a.p, cnt, &got, SCPI_FORMAT_ASCII, FALSE) && query)
                    SCPI_ResultArrayUInt64(c, (uint64_t *) a.p, got, (scpi_array_format_t) (o.tb % 3));
                break;
            }
            case 4: {
                XBuf a(cnt * 4);
                if (SCPI_ParamArrayFloat(c, (float *) a.p, cnt, &got, SCPI_FORMAT_ASCII, FALSE) && query)
                    SCPI_ResultArrayFloat(c, (float *) a.p, got, (scpi_array_format_t) (o.tb % 3));
                break;
            }
            default: {
                XBuf a(cnt * 8);
                if (SCPI_ParamArrayDouble(c, (double *) a.p, cnt, &got, SCPI_FORMAT_NORMAL, FALSE) && query) SCPI_ResultInt32(c, 0);
                if (SCPI_ParamArrayDouble(c, (double *) a.p, cnt, &got, SCPI_FORMAT_ASCII, FALSE) && query)
                    SCPI_ResultArrayDouble(c, (double *) a.p, got, (scpi_array_format_t) (o.tb % 3));
                break;
            }
        }
    }
    if (query) {
        static const int8_t i8[] = {-128, 0, 127};
        static const uint16_t u16[] = {0, 0xFFFF, 0x1234};
        static const uint8_t u8[] = {0, 255, 7};
        static const int16_t i16[] = {-32768, 0, 32767};
        SCPI_ResultArrayInt8(c, i8, 3, (scpi_array_format_t) (o.variant % 3));
        SCPI_ResultArrayUInt16(c, u16, 3, (scpi_array_format_t) ((o.variant + 1) % 3));
        SCPI_ResultArrayUInt8(c, u8, (size_t) (o.variant % 4), (scpi_array_format_t) ((o.variant + 2) % 3));
        SCPI_ResultArrayInt16(c, i16, (size_t) (o.tb % 4), (scpi_array_format_t) (o.tb % 3));
        (void) SCPI_ParamErrorOccurred(c);
        if (u) (void) SCPI_Match("TORTure[:SUB#]?", u->cmd_raw.c_str(), u->cmd_raw.size());
        if (o.variant % 4 == 0) {
            // streamed block, then over-length data (must be refused)
            SCPI_ResultArbitraryBlockHeader(c, 4);
            SCPI_ResultArbitraryBlockData(c, "ab", 2);
            SCPI_ResultArbitraryBlockData(c, "cd", 2);
            SCPI_ResultArbitraryBlockData(c, "e", 1);
        }
    }
    // leave the parameter cursor wherever pass C left it: -108 accounting runs on it
    return (o.variant % 7 == 3) ? SCPI_RES_ERR : SCPI_RES_OK;
}

}   // namespace

void instrument_install(World &w, const InstrOpts &o) {
    for (int i = 0; i < o.pad_before && i < 400; i++) w.add_command(fmt("FILLer%d:GROup%c:ITEM%s", i / 26, 'A' + i % 26, i % 2 ? "?" : ""), [](World &) { return SCPI_RES_OK; });
    w.add_standard_commands();
    w.add_command("TEST:BOOL", [](World &ww) {
        scpi_bool_t b = FALSE;
        bool ok = SCPI_ParamBool(ww.ctx, &b, TRUE);
        ww.note(fmt("bool=%d:%d", ok, ok ? b : 0));
        return ok ? SCPI_RES_OK : SCPI_RES_ERR;
    });
    w.add_command("TEST:CHOice?", [](World &ww) {
        int32_t x = 0;
        if (!SCPI_ParamChoice(ww.ctx, trigger_source, &x, TRUE)) return SCPI_RES_ERR;
        const char *nm = nullptr;
        SCPI_ChoiceToName(trigger_source, x, &nm);
        ww.note(fmt("choice=%d", x));
        if (nm) SCPI_ResultMnemonic(ww.ctx, nm);
        return SCPI_RES_OK;
    });
    w.add_command("TEST#:NUMbers#", h_numbers);
    w.add_command("TEST:TEXT", h_text);
    w.add_command("TEST:TEXT?", h_text);
    w.add_command("TEST:ARBitrary?", h_arb);
    w.add_command("TEST:CHANnellist", h_chanlist);
    w.add_command("TEST:NUMList", h_numlist);
    w.add_command("TEST:NUMBer", h_number);
    w.add_command("TEST:NUMBer?", h_number);
    w.add_command("TEST:INT32?", [](World &ww) {
        return typed_query<int32_t>(ww, "i32", SCPI_ParamInt32, [](scpi_t *c, int32_t x) { SCPI_ResultInt32(c, x); }, [](int32_t x) { return fmt("%d", x); });
    });
    w.add_command("TEST:UINT32?", [](World &ww) {
        return typed_query<uint32_t>(ww, "u32", SCPI_ParamUInt32, [](scpi_t *c, uint32_t x) { SCPI_ResultUInt32Base(c, x, 16); }, [](uint32_t x) { return fmt("%u", x); });
    });
    w.add_command("TEST:INT64?", [](World &ww) {
        return typed_query<int64_t>(ww, "i64", SCPI_ParamInt64, [](scpi_t *c, int64_t x) { SCPI_ResultInt64(c, x); }, [](int64_t x) { return fmt("%lld", (long long) x); });
    });
    w.add_command("TEST:UINT64?", [](World &ww) {
        return typed_query<uint64_t>(ww, "u64", SCPI_ParamUInt64, [](scpi_t *c, uint64_t x) { SCPI_ResultUInt64Base(c, x, 8); },
                                     [](uint64_t x) { return fmt("%llu", (unsigned long long) x); });
    });
    w.add_command("TEST:FLOat?", [](World &ww) {
        return typed_query<float>(ww, "f", SCPI_ParamFloat, [](scpi_t *c, float x) { SCPI_ResultFloat(c, x); }, [](float x) { return bits32(x); });
    });
    w.add_command("TEST:DOUBle?", [](World &ww) {
        return typed_query<double>(ww, "d", SCPI_ParamDouble, [](scpi_t *c, double x) { SCPI_ResultDouble(c, x); }, [](double x) { return bits64(x); });
    });
    w.add_command("TEST:ECHO?", h_echo);
    w.add_command("TEST:ECHO", h_echo);
    w.add_command("TEST:OPTional?", h_opt);
    w.add_command("TEST:OPTional", h_opt);
    w.add_command("TEST:ARRays?", h_arrays);
    w.add_command("TEST:TREEA?", [](World &ww) {
        SCPI_ResultInt32(ww.ctx, 10);
        return SCPI_RES_OK;
    });
    w.add_command("TEST:TREEB?", [](World &ww) {
        SCPI_ResultInt32(ww.ctx, 20);
        return SCPI_RES_OK;
    });
    // overlapping patterns, the general one first: the first match wins whatever was dispatched before
    w.add_command("TEST:OVERlap:STATe?", [](World &ww) {
        SCPI_ResultInt32(ww.ctx, 100);
        return SCPI_RES_OK;
    });
    w.add_command("TEST:OVERlap#:STATe?", [](World &ww) {
        int32_t ch[1] = {-1};
        SCPI_CommandNumbers(ww.ctx, ch, 1, 1);
        SCPI_ResultInt32(ww.ctx, 200 + ch[0]);
        return SCPI_RES_OK;
    });
    // siblings below a prefix of more than 32 characters, equal in length
    w.add_command("TEST:CALCulate:MEASurement:LIMit:CLIPping:STATe:UPPer?", [](World &ww) {
        SCPI_ResultInt32(ww.ctx, 301);
        return SCPI_RES_OK;
    });
    w.add_command("TEST:CALCulate:MEASurement:LIMit:CLIPping:STATe:LOWer?", [](World &ww) {
        SCPI_ResultInt32(ww.ctx, 302);
        return SCPI_RES_OK;
    });
    // the application points the context at another unit table (UNIT:... style settings)
    w.add_command("TEST:UNITs", [](World &ww) {
        int32_t which = 0;
        if (!SCPI_ParamInt32(ww.ctx, &which, TRUE)) return SCPI_RES_ERR;
        ww.use_units(which);
        return SCPI_RES_OK;
    });
    w.add_command("TEST:MULTi?", h_multi);
    w.add_command("TEST:NOREsponse?", [](World &) { return SCPI_RES_OK; });
    w.add_command("TEST:FAIL", [](World &) { return SCPI_RES_ERR; });
    w.add_command("TEST:FAIL?", [](World &ww) {
        SCPI_ResultInt32(ww.ctx, 9);
        return SCPI_RES_ERR;
    });
    w.add_command("TEST:ERRor", [](World &ww) {
        SCPI_ErrorPush(ww.ctx, -222);
        return SCPI_RES_OK;
    });
    w.add_command("TEST:BLKHalf?", [](World &ww) {
        SCPI_ResultArbitraryBlockHeader(ww.ctx, 10);
        SCPI_ResultArbitraryBlockData(ww.ctx, "12345", 5);
        return SCPI_RES_OK;
    });
    w.add_command("TEST:BLKThen?", [](World &ww) {
        // leaves a block unfinished and then writes another result (a handler fault the library must contain within the unit)
        SCPI_ResultArbitraryBlockHeader(ww.ctx, 5);
        SCPI_ResultArbitraryBlockData(ww.ctx, "ab", 2);
        SCPI_ResultInt32(ww.ctx, 7);
        return SCPI_RES_OK;
    });
    w.add_command("TEST:BLKData?", [](World &ww) {
        // block data without a header of its own: must be refused unless this unit announced a block (it did not)
        size_t n = SCPI_ResultArbitraryBlockData(ww.ctx, "zz", 2);
        ww.note(fmt("blkdata=%zu", n));
        return SCPI_RES_OK;
    });
    w.add_command("TEST:PART", [](World &ww) {
        int32_t x = 0;
        bool ok = SCPI_ParamInt32(ww.ctx, &x, TRUE);
        ww.note(fmt("part=%d:%d", ok, ok ? x : 0));
        return ok ? SCPI_RES_OK : SCPI_RES_ERR;
    });
    w.add_command("[:MEASure]:VOLTage[:DC]?", [](World &ww) {
        SCPI_ResultDouble(ww.ctx, 3.25);
        return SCPI_RES_OK;
    });
    w.add_command("[:MEASure]:VOLTage:AC?", [](World &ww) {
        SCPI_ResultDouble(ww.ctx, 1.125);
        return SCPI_RES_OK;
    });
    w.add_command("SYSTem:COMMunicate:TCPIP:CONTROL?", [](World &ww) {
        SCPI_ResultInt32(ww.ctx, 5025);
        return SCPI_RES_OK;
    });
    w.add_null_command("TEST:NULLcb");      // defined headers without a callback: accepted, nothing runs, parameters are surplus
    w.add_null_command("TEST:NULLcb?");
    w.add_command("STUB", [](World &) { return SCPI_RES_OK; });
    w.add_command("STUB?", [](World &ww) {
        SCPI_ResultInt32(ww.ctx, 0);
        return SCPI_RES_OK;
    });
    if (o.torture) {
        InstrOpts oc = o;
        w.add_command("TORTure", [oc](World &ww) { return h_torture(ww, oc); });
        w.add_command("TORTure?", [oc](World &ww) { return h_torture(ww, oc); });
        w.add_command("TORTure:SUB#[:OPT]?", [oc](World &ww) {
            int32_t nums[1];
            SCPI_CommandNumbers(ww.ctx, nums, 1, 0);
            SCPI_CommandNumbers(ww.ctx, nullptr, 0, 0);
            XBuf none(0);
            SCPI_CommandNumbers(ww.ctx, (int32_t *) none.p, 0, 0);
            (void) SCPI_IsCmd(ww.ctx, "TORT:SUB1?");
            return h_torture(ww, oc);
        });
    }
}

// ------------------------------------------------------------------ generation
namespace {
const char *HEADERS_PLAIN[] = {
    "*IDN?", "*OPC", "*OPC?", "*WAI", "*TST?", "*RST", "SYST:VERS?", "SYSTem:VERSion?", "TEST:TREEA?", "TEST:TREEB?", "test:treea?", ":TEST:TREEB?",
    "TEST:MULT?", "TEST:MULTi?", "TEST:NORE?", "TEST:FAIL", "TEST:FAIL?", "TEST:ERR", "TEST:BLKH?", "TEST:BLKD?", "TEST:BLKT?", "TEST:NULL", "TEST:NULL?", "TEST:NULL 1,2", "STUB", "STUB?", "VOLT?", "MEAS:VOLT?", "MEAS:VOLT:DC?",
    ":MEASure:VOLTage:DC?", "VOLT:AC?", "MEAS:VOLT:AC?", "SYST:COMM:TCPIP:CONTROL?", "TEST1:NUM2", "TEST:NUMbers", "TEST12:NUMB345",
    "TEST:OVER:STAT?", "TEST:OVER2:STAT?", "TEST:OVERlap1:STATe?", "TEST:OVER:STAT?",
    "TEST:CALCULATE:MEASUREMENT:LIMIT:CLIPPING:STATE:UPPER?", "TEST:CALCULATE:MEASUREMENT:LIMIT:CLIPPING:STATE:LOWER?",
    "TEST:CALCULATE:MEASUREMENT:LIMIT:CLIPPING:STATE:LOWER?", "TEST:CALC:MEAS:LIM:CLIP:STAT:UPP?",
};
const char *HEADERS_STATUS[] = {
    "*CLS", "*ESR?", "*ESE?", "*STB?", "*SRE?", "SYST:ERR?", "SYST:ERR:NEXT?", "SYST:ERR:COUN?", "STAT:QUES?", "STAT:OPER?", "STAT:PRES", "STAT:QUES:ENAB?",
    "STAT:OPER:COND?",
};
const char *HEADERS_UNDEF[] = {"UNDEF", "TEST:NOPE", "*XYZ", "*XYZ?", "FOO:BAR:BAZ?", "TEST:TREEA", "A", "SYST:ERR:NOPE?", "TEST:TREEAA?", ":*IDN?"};

struct CmdSpec {
    const char *header;
    const char *kinds;   // parameter kinds: i int, r real, s string, b block, m mnemonic, e expression, n number-with-suffix, x anything, B bool, C choice, ? optional marker
};
const CmdSpec SPECS[] = {
    {"TEST:BOOL", "B"},       {"TEST:CHO?", "C"},        {"TEST:CHOice?", "C"},  {"TEST:TEXT", "s"},       {"TEST:TEXT?", "s"},     {"TEST:ARB?", "b"},
    {"TEST:ARBitrary?", "b"}, {"TEST:CHAN", "e"},        {"TEST:NUML", "e"},     {"TEST:NUMB", "n"},       {"TEST:NUMBer?", "n"},   {"TEST:INT32?", "i"},
    {"TEST:UINT32?", "i"},    {"TEST:INT64?", "i"},      {"TEST:UINT64?", "i"},  {"TEST:FLO?", "r"},       {"TEST:DOUB?", "r"},     {"TEST:DOUBle?", "n"},
    {"TEST:ECHO?", "xxx"},    {"TEST:ECHO", "xx"},       {"TEST:ECHO?", "x"},    {"TEST:ECHO?", "xxxxx"},  {"TEST:OPT?", ""},       {"TEST:OPT? ", "i"},
    {"TEST:OPT", "ii"},       {"TEST:OPTional?", "iii"}, {"TEST:ARR?", "iirr"},  {"TEST:ARRays?", "i"},    {"TEST:PART", "iii"},    {"TEST:PART", "i"},
    {"*ESE", "i"},            {"*SRE", "i"},             {"STAT:QUES:ENAB", "i"}, {"STAT:OPER:ENAB", "i"}, {"TEST:INT32?", "x"},    {"TEST:TEXT?", "x"},
};
const char *MNEMS[] = {"ON", "OFF", "MIN", "MAX", "DEF", "MINimum", "BUS", "IMM", "EXTernal", "UP", "DOWN", "NAN", "INF", "NINF", "AUTO", "FOO", "x1_y", "E5"};
const char *SUFFIXES[] = {"V", "mV", " V", "OHM", " kOHM", "Hz", "MHZ", "s", "ms", "A", "dB", "xyz", "V/s", " uV"};
}   // namespace

const char *gen_terminator(Rng &r) {
    static const char *t[] = {"\n", "\r\n", "\r", "\n", "\r\n"};
    return t[r.below(5)];
}

static std::string gen_int(Rng &r) {
    if (r.chance(1, 12)) {
        // range boundaries of the 32- and 64-bit readers, and values beyond them (conversion overflow)
        static const char *edge[] = {"#HFFFFFFFFFFFFFFFF", "#HFFFFFFFF", "#H7FFFFFFF", "#H80000000", "#H7FFFFFFFFFFFFFFF", "#H1FFFFFFFFFFFFFFFF", "2147483647", "-2147483648",
                                     "4294967295", "9223372036854775807", "-9223372036854775808", "18446744073709551615", "99999999999999999999", "-99999999999999999999",
                                     "#Q1777777777777777777777", "#B11111111111111111111111111111111"};
        return edge[r.below(sizeof edge / sizeof edge[0])];
    }
    switch (r.below(6)) {
        case 0: return std::to_string((long) r.below(10));
        case 1: return std::to_string(-(long) r.below(1000));
        case 2: return "+" + std::to_string((long) r.below(100000));
        case 3: return fmt("#H%llX", (unsigned long long) r.below(1ull << r.range(1, 40)));
        case 4: return r.chance(1, 2) ? fmt("#Q%llo", (unsigned long long) r.below(1ull << 20)) : std::string("#B") + (r.chance(1, 2) ? "101" : "0") + (r.chance(1, 2) ? "1" : "0");
        default: return std::to_string((long long) (int32_t) r.next());
    }
}
static std::string gen_real(Rng &r) {
    if (r.chance(1, 16)) {
        static const char *edge[] = {"1E39", "1e999", "-1e999", "1e-999", "3.4028235E38", "1.7976931348623157e308", "4.9e-324", "1e400"};
        return edge[r.below(sizeof edge / sizeof edge[0])];
    }
    switch (r.below(7)) {
        case 0: return fmt("%ld.%ld", (long) r.below(100), (long) r.below(1000));
        case 1: return fmt(".%ld", (long) r.below(100));
        case 2: return fmt("-%ld.", (long) r.below(100));
        case 3: return fmt("%ld.%ldE%ld", (long) r.below(10), (long) r.below(100), r.range(-20, 20));
        case 4: return fmt("%lde+%ld", (long) r.below(100), (long) r.below(30));
        case 5: return fmt("%ld.%ld E %ld", (long) r.below(10), (long) r.below(10), r.range(-5, 5));
        default: return fmt("+.%ldE-%ld", (long) r.below(1000), (long) r.below(9));
    }
}
static std::string gen_string(Rng &r, const MsgGenOpts &o) {
    char q = r.chance(1, 2) ? '"' : '\'';
    std::string s(1, q);
    long n = r.range(0, 12);
    for (long i = 0; i < n; i++) {
        switch (r.below(12)) {
            case 0: s += q; s += q; break;
            case 1: s += (q == '"' ? '\'' : '"'); break;
            case 2: s += ';'; break;
            case 3: s += ','; break;
            case 4:
                if (o.string_nl) s += r.chance(1, 2) ? "\n" : "\r\n";
                break;
            case 5: s += ' '; break;
            case 6: s += '#'; break;
            default: s += (char) ('a' + r.below(26)); break;
        }
    }
    s += q;
    return s;
}
static std::string gen_block(Rng &r) {
    long n = r.chance(1, 6) ? r.range(10, 40) : r.range(0, 9);
    std::string body;
    for (long i = 0; i < n; i++) {
        switch (r.below(8)) {
            case 0: body += '\n'; break;
            case 1: body += '\r'; break;
            case 2: body += ';'; break;
            case 3: body += '"'; break;
            case 4: body += (char) r.below(256); break;
            case 5: body += '\0'; break;
            default: body += (char) ('A' + r.below(26)); break;
        }
    }
    std::string len = std::to_string(body.size());
    if (r.chance(1, 5)) len = std::string((size_t) r.range(1, 3), '0') + len;   // leading zeros in the length field
    else if (r.chance(1, 8)) len = std::string(9 - len.size(), '0') + len;       // the widest length field there is
    return "#" + std::to_string(len.size()) + len + body;
}
static std::string gen_expr(Rng &r, const MsgGenOpts &o) {
    if ((o.expr_quotes || o.malformed) && r.chance(1, 10)) {
        // quotes inside parentheses are not expression characters; a terminator between them is a terminator
        const char *nl = o.string_nl ? (r.chance(1, 2) ? "\n" : "\r\n") : ";";
        switch (r.below(4)) {
            case 0: return std::string("(@\"A") + nl + "B\")";
            case 1: return std::string("('x") + nl + "y',1)";
            case 2: return "(\"a)b\")";
            default: return "(1,\"2:3\",'4')";
        }
    }
    switch (r.below(6)) {
        case 0: return "(1,2:5)";
        case 1: return fmt("(@%ld!%ld:%ld!%ld,%ld)", (long) r.below(9), (long) r.below(9), (long) r.below(9), (long) r.below(9), (long) r.below(9));
        case 2: return "(@1,2,3)";
        case 3: return fmt("(%ld:%ld,%ld)", (long) r.below(99), (long) r.below(99), (long) r.below(9));
        case 4: return "()";
        default: return "(@1!2!3!4:5!6!7!8)";
    }
}

std::string gen_param(Rng &r, const MsgGenOpts &o, int kind) {
    if (kind < 0) kind = "irsbmen"[r.below(7)];
    switch (kind) {
        case 'i': return gen_int(r);
        case 'r': return r.chance(1, 3) ? gen_int(r) : gen_real(r);
        case 's': return gen_string(r, o);
        case 'b': return o.blocks ? gen_block(r) : gen_string(r, o);
        case 'm': return MNEMS[r.below(sizeof MNEMS / sizeof MNEMS[0])];
        case 'e': return gen_expr(r, o);
        case 'n': return (r.chance(1, 2) ? std::to_string(r.range(-500, 500)) : gen_real(r)) + (r.chance(3, 4) ? SUFFIXES[r.below(sizeof SUFFIXES / sizeof SUFFIXES[0])] : "");
        case 'B': return r.chance(1, 2) ? (r.chance(1, 2) ? "ON" : "OFF") : (r.chance(1, 2) ? "1" : "0");
        case 'C': {
            static const char *ch[] = {"BUS", "IMM", "IMMediate", "EXT"};
            return r.chance(3, 4) ? ch[r.below(4)] : "FOO";
        }
        default: return gen_param(r, o, -1);
    }
}

static std::string gen_unit(Rng &r, const MsgGenOpts &o) {
    int sel = (int) r.below(20);
    if (o.torture && sel < 7) {
        std::string u = r.chance(1, 2) ? "TORT?" : (r.chance(1, 2) ? "TORTure" : fmt("TORT:SUB%ld%s?", (long) r.below(100), r.chance(1, 2) ? ":OPT" : ""));
        long np = r.range(0, 5);
        for (long i = 0; i < np; i++) u += (i ? (r.chance(1, 5) ? " , " : ",") : " ") + gen_param(r, o, -1);
        return u;
    }
    if (sel < 8) return HEADERS_PLAIN[r.below(sizeof HEADERS_PLAIN / sizeof HEADERS_PLAIN[0])];
    if (sel < 10 && o.status_cmds) return HEADERS_STATUS[r.below(sizeof HEADERS_STATUS / sizeof HEADERS_STATUS[0])];
    if (sel == 10 && o.undefined) {
        std::string u = HEADERS_UNDEF[r.below(sizeof HEADERS_UNDEF / sizeof HEADERS_UNDEF[0])];
        if (r.chance(1, 3)) u += " " + gen_param(r, o, -1);
        return u;
    }
    const CmdSpec &cs = SPECS[r.below(sizeof SPECS / sizeof SPECS[0])];
    std::string u = cs.header;
    std::string kinds = cs.kinds;
    // sometimes wrong arity or wrong kinds
    if (r.chance(1, 8) && !kinds.empty()) kinds.pop_back();
    if (r.chance(1, 8)) kinds += 'x';
    for (size_t i = 0; i < kinds.size(); i++) {
        std::string sep;
        if (i == 0)
            sep = r.chance(1, 6) ? "  " : (r.chance(1, 8) ? "\t" : " ");
        else {
            sep = ",";
            if (r.chance(1, 6)) sep += " ";
            if (o.ws_before_comma && r.chance(1, 10)) sep = " " + sep;
        }
        int k = kinds[i];
        if (r.chance(1, 12)) k = 'x';
        u += sep + gen_param(r, o, k);
    }
    if (o.malformed && r.chance(1, 6)) {
        static const char *frag[] = {"@", " \"", " 1 2", " ,1", ",,2", ",", " #", " #1", " #15ab", " (1", "'", " 1e", " $"};
        u += frag[r.below(sizeof frag / sizeof frag[0])];
    }
    return u;
}

std::string gen_message(Rng &r, const MsgGenOpts &o) {
    std::string m;
    long nu = r.chance(1, 2) ? 1 : r.range(2, o.max_units);
    if (r.chance(1, 40)) return "";   // empty line
    for (long i = 0; i < nu; i++) {
        if (i) m += r.chance(1, 8) ? "; " : ";";
        if (i && r.chance(1, 30)) continue;   // empty unit
        std::string u = gen_unit(r, o);
        if (i && r.chance(1, 3) && u.rfind("TEST:", 0) == 0 && m.find("TEST:") != std::string::npos) u = u.substr(5);   // relative header
        m += u;
    }
    if (r.chance(1, 12)) m = (r.chance(1, 2) ? " " : "\t ") + m;
    if (r.chance(1, 12)) m += " ";
    return m;
}

std::string mutate_bytes(Rng &r, const std::string &in, int nmut) {
    std::string s = in;
    static const char interesting[] = "\n\r;,:*?#\"'() \t@0129eE+-.!_\0\x7f\x80\xff";
    for (int k = 0; k < nmut; k++) {
        size_t pos = s.empty() ? 0 : r.below(s.size() + 1);
        switch (r.below(7)) {
            case 0:   // flip
                if (!s.empty()) s[pos % s.size()] = (char) r.below(256);
                break;
            case 1:   // insert interesting
                s.insert(pos, 1, interesting[r.below(sizeof interesting - 1)]);
                break;
            case 2:   // delete
                if (!s.empty()) s.erase(pos % s.size(), (size_t) r.range(1, 3));
                break;
            case 3: {   // splice from elsewhere
                if (s.size() > 2) {
                    size_t a = r.below(s.size()), l = (size_t) r.range(1, 8);
                    s.insert(pos, s.substr(a, l));
                }
                break;
            }
            case 4:   // truncate
                if (!s.empty() && r.chance(1, 3)) s.resize(r.below(s.size()));
                break;
            case 5:   // replace with interesting
                if (!s.empty()) s[pos % s.size()] = interesting[r.below(sizeof interesting - 1)];
                break;
            default:   // duplicate a byte run
                if (!s.empty()) {
                    size_t a = pos % s.size();
                    s.insert(a, std::string((size_t) r.range(1, 4), s[a]));
                }
                break;
        }
    }
    return s;
}

std::string observable_trace(const World &w, size_t first_msg, bool with_out, size_t end_msg, bool mask_overflow) {
    std::string t;
    for (size_t mi = first_msg; mi < w.msgs.size() && mi < end_msg; mi++) {
        const MsgRec &m = w.msgs[mi];
        for (const UnitRec &u : m.units) {
            if (u.invocations == 0 && u.errs.empty() && u.out.empty()) continue;   // empty units leave no trace
            if (mask_overflow && u.invocations == 0 && u.out.empty()) {
                bool only = true;
                for (int e : u.errs)
                    if (e != 0 && e != -350) only = false;
                if (only) continue;
            }
            t += fmt("unit inv=%d tag=%d hdr=\"%s\" res=%d\n", u.invocations, u.tag, c_escape(u.cmd_raw).c_str(), u.hres);
            for (const ParamRec &p : u.params) t += fmt("  p %s \"%s\" %s\n", token_name(p.type), c_escape(p.bytes).c_str(), p.typed.c_str());
            if (!u.notes.empty()) t += "  notes " + c_escape(u.notes) + "\n";
            if (with_out) t += "  out \"" + c_escape(u.out) + "\"\n";
            for (int e : u.errs)
                if (e != 0 && !(mask_overflow && e == -350)) t += fmt("  err %d\n", e);
        }
    }
    return t;
}

std::string drained_queue(World &w) {
    std::string t;
    int guard = 0;
    while (SCPI_ErrorCount(w.ctx) > 0 && guard++ < 64) {
        int code;
        std::string text;
        bool has;
        w.fw_pop(code, text, has);
        t += fmt("q %d %s\n", code, has ? c_escape(text).c_str() : "-");
    }
    return t;
}
