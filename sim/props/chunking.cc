// C08: behaviour depends on the byte stream, not on how it is cut into input calls
//      (twin worlds: one byte per call vs. a seeded segmentation; idle flush vs. SCPI_Parse).
// C09: messages and units are isolated (twin worlds: B after a history A1..An vs. B on a fresh context;
//      U1;U2 vs. U2 alone).
#include <cerrno>
#include <memory>
#include "instrument.h"

namespace {

struct Feed {
    std::string stream;
    std::vector<long> flush_at;   // stream offsets after which a zero-length call is made (sorted)
};

bool is_flush_point(const Feed &f, size_t off) {
    for (long x : f.flush_at)
        if ((size_t) x == off) return true;
    return false;
}

size_t next_flush_after(const Feed &f, size_t off) {
    size_t best = f.stream.size();
    for (long x : f.flush_at)
        if ((size_t) x > off && (size_t) x < best) best = (size_t) x;
    return best;
}

struct FeedResult {
    size_t max_pending_before = 0;
    bool overran = false;
    bool stalled = false;
    size_t stalled_at = 0;
    int first_flush_call = -1;      // index into w.calls of the first zero-length call
    std::string pending_at_first_flush;
    size_t delivered_at_first_flush = 0;
    size_t max_msgs_in_call = 0;
    bool remainder_after_call = false;
    size_t pending_after_flush = 0;   // bytes still buffered right after a zero-length call (must be 0)
};

// deliver the stream in chunks given by `cuts` (cyclic); cuts empty = one byte per call
FeedResult feed(World &w, const Feed &f, const std::vector<long> &cuts, bool stop_before_first_flush = false) {
    FeedResult r;
    size_t pos = 0, ci = 0;
    if (is_flush_point(f, 0) && stop_before_first_flush) return r;
    if (is_flush_point(f, 0)) {
        r.first_flush_call = (int) w.calls.size();
        w.flush_input();
    }
    while (pos < f.stream.size()) {
        long n = cuts.empty() ? 1 : cuts[ci++ % cuts.size()];
        if (n < 1) n = 1;
        size_t lim = next_flush_after(f, pos) - pos;
        if ((size_t) n > lim) n = (long) lim;
        size_t before = w.ctx->buffer.position;
        long fre = (long) w.ctx->buffer.length - (long) before - 1;
        if (n > fre) n = fre;   // the stream precondition bounds pending data: a call that does not fit is C01/C05 territory
        if (n < 1) {
            r.stalled = true;
            r.stalled_at = pos;
            return r;
        }
        r.max_pending_before = std::max(r.max_pending_before, before);
        size_t m0 = w.msgs.size();
        w.input(f.stream.data() + pos, (int) n);
        if (w.calls.back().overrun) r.overran = true;
        r.max_msgs_in_call = std::max(r.max_msgs_in_call, w.msgs.size() - m0);
        if (w.ctx->buffer.position > 0) r.remainder_after_call = true;
        pos += (size_t) n;
        if (is_flush_point(f, pos)) {
            if (r.first_flush_call < 0) {
                r.pending_at_first_flush = w.pending();
                r.delivered_at_first_flush = pos;
                if (stop_before_first_flush) return r;
                r.first_flush_call = (int) w.calls.size();
            }
            w.flush_input();
            r.pending_after_flush = std::max(r.pending_after_flush, (size_t) w.ctx->buffer.position);
        }
    }
    return r;
}

std::string err_codes(const World &w) {
    std::string s;
    for (auto &e : w.errs)
        if (e.code != 0) s += fmt("%d ", e.code);
    return s;
}

std::string first_diff(const std::string &a, const std::string &b) {
    size_t i = 0;
    while (i < a.size() && i < b.size() && a[i] == b[i]) i++;
    size_t ls = a.rfind('\n', i ? i - 1 : 0);
    ls = ls == std::string::npos ? 0 : ls + 1;
    auto line = [&](const std::string &s) {
        if (ls >= s.size()) return std::string("<end>");
        size_t e = s.find('\n', ls);
        return s.substr(ls, e == std::string::npos ? std::string::npos : e - ls);
    };
    return "byte-at-a-time: [" + line(a) + "]  vs  chunked: [" + line(b) + "]";
}

struct WorldObs {
    std::string trace, out, errs, pending, queue;
    int flushes;
};

WorldObs observe(World &w) {
    WorldObs o;
    o.trace = observable_trace(w);
    o.out = w.out;
    o.errs = err_codes(w);
    o.pending = w.pending();
    o.flushes = w.flushes;
    o.queue = drained_queue(w);
    return o;
}

// classify where the schedule cuts relative to the stream (probes only)
void probe_cut_positions(const std::string &s, const std::vector<size_t> &cutpos) {
    // cheap scanner: track whether each offset lies inside a quoted string or a block body
    std::vector<char> cls(s.size() + 1, 0);
    size_t i = 0;
    while (i < s.size()) {
        char c = s[i];
        if (c == '"' || c == '\'') {
            size_t j = i + 1;
            while (j < s.size() && !(s[j] == c && !(j + 1 < s.size() && s[j + 1] == c))) {
                if (s[j] == c) j++;
                j++;
            }
            for (size_t k = i + 1; k <= j && k < cls.size(); k++) cls[k] = 'q';
            i = j + 1;
        } else if (c == '#' && i + 1 < s.size() && s[i + 1] >= '1' && s[i + 1] <= '9') {
            size_t nd = (size_t) (s[i + 1] - '0'), len = 0, j = i + 2;
            for (size_t k = 0; k < nd && j < s.size() && isdigit((unsigned char) s[j]); k++, j++) len = len * 10 + (size_t) (s[j] - '0');
            for (size_t k = i + 1; k <= j && k < cls.size(); k++) cls[k] = 'h';
            for (size_t k = j + 1; k <= j + len && k < cls.size(); k++) cls[k] = 'b';
            i = j + len;
        } else {
            i++;
        }
    }
    for (size_t p : cutpos) {
        if (p == 0 || p >= s.size()) continue;
        if (cls[p] == 'q') COUNT("probe_split_inside_quote");
        if (cls[p] == 'h') COUNT("probe_split_inside_block_header");
        if (cls[p] == 'b') COUNT("probe_split_inside_block_body");
        if (s[p - 1] == '\r' && s[p] == '\n') COUNT("probe_split_inside_crlf");
        if ((s[p - 1] == 'e' || s[p - 1] == 'E') && (isdigit((unsigned char) s[p]) || s[p] == '+' || s[p] == '-')) COUNT("probe_split_inside_exponent");
        if (s[p - 1] == ':' || s[p] == ':') COUNT("probe_split_inside_compound_header");
    }
}

void execute_c08(const Plan &plan, Verdict &v) {
    Feed f;
    std::vector<long> cuts;
    for (const Op &op : plan.ops) {
        if (op.kind == "stream" && op.has_s) f.stream += op.s;
        if (op.kind == "cuts") cuts = op.a;
        if (op.kind == "flush_at")
            for (long x : op.a) f.flush_at.push_back(x);
    }
    if (f.stream.size() > 4000) f.stream.resize(4000);
    for (long &x : f.flush_at) x = clampl(x, 0, (long) f.stream.size());
    std::sort(f.flush_at.begin(), f.flush_at.end());
    if (cuts.empty()) cuts.push_back((long) f.stream.size() + 1);
    InstrOpts io;
    WorldCfg cfg;
    cfg.queue = (int) clampl(plan.k("queue", 8), 1, 16);
    cfg.wr_mode = (int) (plan.k("wr_mode", 0) & 3);
    // world L: large buffer, measures the longest pending run of the byte-at-a-time feed
    size_t P;
    {
        cfg.inbuf = (int) f.stream.size() + 3;
        World L(cfg);
        instrument_install(L, io);
        L.seal();
        FeedResult fl = feed(L, f, {});
        P = fl.max_pending_before;
    }
    cfg.inbuf = (int) (P + 2 + (size_t) clampl(plan.k("slack", 0), 0, 600));
    // world R: one byte per call
    World R(cfg);
    instrument_install(R, io);
    R.seal();
    FeedResult fr = feed(R, f, {});
    if (fr.overran || fr.stalled) {
        // the byte-at-a-time run does not meet the stream precondition with this buffer (behaviour depended on the buffer size):
        // nothing is asserted about it here
        COUNT("precondition_not_met");
        v.trace_hash = R.hash();
        v.nontrivial = R.nontrivial;
        return;
    }
    std::vector<std::vector<long>> schedules;
    if (plan.k("sweep", 0) && f.stream.size() <= 96) {
        for (size_t k = 1; k < f.stream.size(); k++) schedules.push_back({(long) k, (long) f.stream.size()});
        COUNT("single_split_sweeps");
    } else {
        schedules.push_back(cuts);
    }
    WorldObs oR = observe(R);
    uint64_t h = R.hash();
    for (auto &sch : schedules) {
        if (v.violated) break;
        World S(cfg);
        instrument_install(S, io);
        S.seal();
        FeedResult fs = feed(S, f, sch);
        h = fnv1a(S.canon, h);
        if (g_collect) {
            std::vector<size_t> cutpos;
            size_t acc = 0;
            for (auto &c : S.calls) {
                acc += (size_t) c.len;
                cutpos.push_back(acc);
            }
            probe_cut_positions(f.stream, cutpos);
            if (fs.max_msgs_in_call >= 2) COUNT("probe_two_messages_in_one_call");
            if (fs.remainder_after_call) COUNT("probe_remainder_after_call");
            COUNT("schedules");
            uint64_t sig = 0;
            for (auto &c : S.calls) sig = mix64(sig + (uint64_t) c.len * 31 + (uint64_t) c.n_msgs);
            g_sets.add("interleaving", sig ^ fnv1a(f.stream));
        }
        if (fs.pending_after_flush || fr.pending_after_flush) {
            v.fail("flush-not-consumed", "pending", fmt("a zero-length call left %zu bytes buffered: it must execute whatever is buffered as a complete message",
                                                        std::max(fs.pending_after_flush, fr.pending_after_flush)));
            break;
        }
        if (fs.stalled) {
            v.fail("pending-differs", fmt("at=%zu", fs.stalled_at),
                   fmt("chunked feed has a full buffer (%zu pending of %d) at stream offset %zu where the byte-at-a-time feed never had more than %zu pending",
                       S.ctx->buffer.position, cfg.inbuf, fs.stalled_at, P));
            break;
        }
        WorldObs oS = observe(S);
        std::string where;
        if (oR.trace != oS.trace)
            v.fail("trace-differs", "handlers", "handler invocations/parameters differ: " + first_diff(oR.trace, oS.trace));
        else if (oR.out != oS.out)
            v.fail("output-differs", "out", "output bytes differ: \"" + c_escape(oR.out).substr(0, 200) + "\" vs \"" + c_escape(oS.out).substr(0, 200) + "\"");
        else if (oR.flushes != oS.flushes)
            v.fail("output-differs", "flush", fmt("flush count differs: %d vs %d", oR.flushes, oS.flushes));
        else if (oR.errs != oS.errs)
            v.fail("errors-differ", "callback", "error sequence differs: [" + oR.errs + "] vs [" + oS.errs + "]");
        else if (oR.queue != oS.queue)
            v.fail("errors-differ", "queue", "queued errors differ: [" + c_escape(oR.queue) + "] vs [" + c_escape(oS.queue) + "]");
        else if (oR.pending != oS.pending)
            v.fail("remainder-differs", "pending", "unconsumed remainder differs: \"" + c_escape(oR.pending) + "\" vs \"" + c_escape(oS.pending) + "\"");
        if (v.violated) {
            std::string sc;
            for (auto &c : S.calls) sc += fmt("%d ", c.len);
            v.detail += " | buffer " + std::to_string(cfg.inbuf) + ", chunk lengths: " + sc.substr(0, 200);
            // structural facts for known-finding predicates
            bool quote_nl = false;
            {
                char q = 0;
                for (char c : f.stream) {
                    if (!q && (c == '"' || c == '\'')) q = c;
                    else if (q && c == q) q = 0;
                    else if (q && (c == '\n' || c == '\r')) quote_nl = true;
                }
            }
            v.sig += quote_nl ? " quoted-newline" : "";
        }
        // second clause: the first zero-length call executes whatever is buffered as a complete message
        if (!v.violated && fs.first_flush_call >= 0 && &sch == &schedules.front()) {
            World Pw(cfg);
            instrument_install(Pw, io);
            Pw.seal();
            // P replays the byte-at-a-time schedule up to the flush point, then is handed the pending bytes as one line
            FeedResult fp = feed(Pw, f, {}, true);
            (void) fp;
            size_t pm0 = Pw.msgs.size();
            size_t pout0 = Pw.out.size();
            Pw.parse_line(Pw.pending());
            const CallRec &fc = S.calls[(size_t) fs.first_flush_call];
            size_t endm = (size_t) fc.first_msg + (size_t) fc.n_msgs;
            std::string ts = observable_trace(S, (size_t) fc.first_msg, true, endm), tp = observable_trace(Pw, pm0);
            std::string so, po = Pw.out.substr(pout0);
            for (size_t mi = (size_t) fc.first_msg; mi < endm && mi < S.msgs.size(); mi++) so += S.msgs[mi].out;
            COUNT("fault_idle_flush_checked");
            if (!fs.pending_at_first_flush.empty()) COUNT("probe_idle_flush_with_pending_bytes");
            if (ts != tp)
                v.fail("flush-differs", "handlers", "zero-length call vs SCPI_Parse of the pending bytes \"" + c_escape(fs.pending_at_first_flush).substr(0, 120) +
                                                        "\": " + first_diff(tp, ts));
            else if (so != po)
                v.fail("flush-differs", "out", "zero-length call wrote \"" + c_escape(so) + "\", SCPI_Parse of the same bytes wrote \"" + c_escape(po) + "\"");
        }
    }
    v.trace_hash = h;
    v.nontrivial = R.nontrivial;
    v.sim_ms = f.stream.size();
}

void generate_c08(Rng &r, const GenOpts &g, Plan &p) {
    MsgGenOpts mo;
    mo.string_nl = !g.avoids("quoted_newline");
    mo.malformed = r.chance(1, 4);
    mo.expr_quotes = true;
    mo.max_units = 4;
    long nmsg = r.chance(1, 2) ? r.range(1, 2) : r.range(1, 8);
    std::string stream;
    if (r.chance(1, 40)) {
        // a script pasted into a terminal or coalesced by TCP: dozens of short lines, many of them empty, in one call
        static const char *lines[] = {"", "", "", "*OPC?", "*OPC", "TEST:TREEA?", "*IDN?", "TEST:INT32? 7", "STUB", ";", "TEST:NOPE"};
        long nl = r.chance(1, 2) ? r.range(30, 40) : r.range(33, 120);
        for (long i = 0; i < nl; i++) stream += std::string(lines[r.below(sizeof lines / sizeof lines[0])]) + (r.chance(4, 5) ? "\n" : gen_terminator(r));
        p.ops.push_back(Op("stream", {}, stream));
        p.ops.push_back(Op("cuts", {(long) stream.size() + 1}));
        if (r.chance(1, 3)) p.ops.push_back(Op("flush_at", {r.range(0, (long) stream.size())}));
        p.knob["slack"] = 600;
        p.knob["queue"] = r.range(1, 8);
        return;
    }
    for (long i = 0; i < nmsg; i++) {
        std::string m = gen_message(r, mo);
        if (r.chance(1, 8)) m = mutate_bytes(r, m, (int) r.range(1, 3));
        if (r.chance(1, 12)) {
            // what editors and terminal programs put in front of a line: a UTF-8 byte order mark (whole or partial), NULs, XON/XOFF
            static const char *junk[] = {"\xEF\xBB\xBF", "\xEF\xBB", "\xEF", "\xFF\xFE", "\x11", "\x13", "\xEF\xBB\xBF\xEF\xBB\xBF"};
            m = std::string(junk[r.below(sizeof junk / sizeof junk[0])]) + m;
        }
        if (!mo.string_nl) {
            // with the switch off no quoted string may contain a terminator, mutated or not
            bool q = false;
            char qc = 0;
            for (auto &c : m) {
                if (!q && (c == '"' || c == '\'')) {
                    q = true;
                    qc = c;
                } else if (q && c == qc) {
                    q = false;
                } else if (q && (c == '\n' || c == '\r')) {
                    c = '_';
                }
            }
        }
        stream += m;
        if (i + 1 < nmsg || !r.chance(1, 8)) {   // sometimes an unterminated tail
            stream += gen_terminator(r);
            // what telnet-style links put behind a line end: CR NUL for a bare carriage return, LF CR, doubled line ends
            if (r.chance(1, 15)) stream += r.chance(1, 2) ? std::string(1, '\0') : (r.chance(1, 2) ? "\r" : "\n\r");
        }
    }
    if (r.chance(1, 8)) {
        // long tokens and the one situation in which a later byte changes how earlier bytes are read: an open quoted string
        // (which may hold CR/LF) that a byte >= 0x80 later makes invalid, with few or hundreds of bytes pending in between
        std::string m = r.chance(1, 2) ? "TEST:TEXT? " : "TEST:ECHO? 1,";
        char q = r.chance(1, 2) ? '\'' : '"';
        m += q;
        long fill = r.chance(1, 2) ? r.range(0, 30) : r.range(200, 520);
        long nl_at = r.chance(3, 4) ? r.range(0, std::max(0L, fill)) : -1;
        for (long i = 0; i < fill; i++) {
            if (i == nl_at) m += r.chance(1, 2) ? "\n" : "\r\n";
            m += (char) ('a' + r.below(26));
            if (r.chance(1, 60)) m += ';';
        }
        if (r.chance(1, 2)) m += (char) (0x80 + r.below(0x80));   // not allowed in string data: the string becomes invalid
        if (r.chance(1, 2)) m += std::string(1, q);
        if (r.chance(1, 3)) m += ";TEST:TREEA?";
        stream += m;
        stream += gen_terminator(r);
        if (r.chance(1, 2)) stream += "TEST:TREEB?\n";
    }
    p.ops.push_back(Op("stream", {}, stream));
    std::vector<long> cuts;
    switch (r.below(5)) {
        case 0:   // one split point
            cuts = {r.range(1, std::max<long>(1, (long) stream.size() - 1)), (long) stream.size()};
            break;
        case 1: {   // uniform size k
            cuts = {r.range(2, 20)};
            break;
        }
        case 2: {   // random multi-way
            long n = r.range(2, 8);
            for (long i = 0; i < n; i++) cuts.push_back(r.chance(1, 4) ? 1 : r.range(1, 16));
            break;
        }
        case 3: cuts = {(long) stream.size()}; break;   // all at once
        default: {
            long n = r.range(1, 4);
            for (long i = 0; i < n; i++) cuts.push_back(r.range(1, std::max<long>(2, (long) stream.size() / 2)));
            break;
        }
    }
    p.ops.push_back(Op("cuts", cuts));
    if (r.chance(1, 3)) p.ops.push_back(Op("flush_at", {r.range(0, (long) stream.size())}));
    if (r.chance(1, 10)) p.ops.push_back(Op("flush_at", {r.range(0, (long) stream.size())}));
    p.knob["slack"] = r.chance(2, 3) ? r.range(0, 2) : r.range(0, 40);
    if (r.chance(1, 8)) p.knob["wr_mode"] = r.range(1, 3);
    if (r.chance(1, g.tier == "thorough" ? 6 : 16) && stream.size() <= 96) p.knob["sweep"] = 1;
    p.knob["queue"] = r.range(1, 8);
}

// ------------------------------------------------------------------ C09
std::string mask_codes(const std::string &errs) {
    // queue effects are exempt: drop -350 announcements
    std::string o;
    size_t i = 0;
    while (i < errs.size()) {
        size_t e = errs.find(' ', i);
        std::string t = errs.substr(i, e - i);
        if (t != "-350") o += t + " ";
        if (e == std::string::npos) break;
        i = e + 1;
    }
    return o;
}

std::string slice_errs(const World &w, size_t first_msg) {
    std::string s;
    for (auto &e : w.errs)
        if (e.code != 0 && e.code != -350 && e.msg >= (int) first_msg) s += fmt("%d ", e.code);
    return s;
}

void deliver(World &w, const std::string &s, const std::vector<long> &cuts, size_t &ci) {
    size_t pos = 0;
    while (pos < s.size()) {
        long n = cuts.empty() ? (long) s.size() : cuts[ci++ % cuts.size()];
        if (n < 1) n = 1;
        if ((size_t) n > s.size() - pos) n = (long) (s.size() - pos);
        long fre = (long) w.ctx->buffer.length - (long) w.ctx->buffer.position - 1;
        if (n > fre) n = fre;
        if (n < 1) {
            w.flush_input();
            continue;
        }
        w.input(s.data() + pos, (int) n);
        pos += (size_t) n;
    }
}

// A unit answered by one of the library's own status or queue queries: what it prints is the status the history left
// behind, which the property exempts ("nothing but status and errors carries over").
bool reads_status(const World &w, size_t first_msg) {
    static const char *status_headers[] = {"*ESR", "*ESE?", "*STB", "*SRE?", "SYSTERR", "SYSTEMERR", "STAT"};
    for (size_t mi = first_msg; mi < w.msgs.size(); mi++)
        for (const UnitRec &u : w.msgs[mi].units) {
            // by the header as written (and as composed): the library's status and queue queries are ordinary table entries
            for (const std::string *src : {&u.text, &u.cmd_raw}) {
                std::string t;
                for (char c : *src) {
                    if (c == ' ' || c == '\t') {
                        if (!t.empty()) break;
                        continue;
                    }
                    if (c != ':') t += (char) toupper((unsigned char) c);
                }
                for (const char *h : status_headers) {
                    size_t n = strlen(h);
                    if (t.compare(0, n, h) == 0 && (h[n - 1] == '?' || t.find('?') != std::string::npos)) return true;
                }
            }
        }
    return false;
}

void execute_c09(const Plan &plan, Verdict &v) {
    InstrOpts io;
    WorldCfg cfg;
    cfg.queue = (int) clampl(plan.k("queue", 8), 1, 16);
    cfg.inbuf = (int) clampl(plan.k("inbuf", 256), 64, 600);
    cfg.wr_mode = (int) (plan.k("wr_mode", 0) & 3);
    std::string B;
    std::vector<long> cuts;
    bool unit_mode = plan.k("unit_mode", 0) != 0;
    for (const Op &op : plan.ops)
        if (op.kind == "b" && op.has_s) B = op.s;
    if (B.empty()) {
        v.trace_hash = 0;
        return;
    }
    if (unit_mode) {
        // ops: u1 | "U1", b | "U2 as written after U1", babs | "U2 with its absolute header"
        std::string U1, Babs;
        for (const Op &op : plan.ops) {
            if (op.kind == "u1" && op.has_s) U1 = op.s;
            if (op.kind == "babs" && op.has_s) Babs = op.s;
        }
        World w1(cfg), w2(cfg);
        instrument_install(w1, io);
        instrument_install(w2, io);
        w1.seal();
        w2.seal();
        w1.input(U1 + ";" + B + "\n");
        w2.input(Babs + "\n");
        auto last_unit = [](World &w) -> const UnitRec * {
            const UnitRec *u = nullptr;
            for (auto &m : w.msgs)
                for (auto &x : m.units)
                    if (x.invocations > 0 || !x.errs.empty()) u = &x;
            return u;
        };
        const UnitRec *a = last_unit(w1), *b = last_unit(w2);
        size_t n1 = 0;
        for (auto &m : w1.msgs)
            for (auto &x : m.units)
                if (x.invocations > 0 || !x.errs.empty()) n1++;
        COUNT("unit_pairs");
        if (reads_status(w1, 0) || reads_status(w2, 0)) {
            COUNT("b_reads_status_exempt");
        } else if (a && b && n1 >= 2) {
            auto show = [](const UnitRec &u) {
                std::string t = fmt("inv=%d tag=%d res=%d", u.invocations, u.tag, u.hres);
                for (auto &p : u.params) t += fmt(" p[%s \"%s\" %s]", token_name(p.type), c_escape(p.bytes).c_str(), p.typed.c_str());
                std::string o = u.out;
                if (!o.empty() && o[0] == ';') o.erase(0, 1);   // only the ';' framing may differ
                t += " out=\"" + c_escape(o) + "\" notes=" + c_escape(u.notes) + " errs=";
                for (int e : u.errs)
                    if (e != 0 && e != -350) t += fmt("%d ", e);
                return t;
            };
            std::string sa = show(*a), sb = show(*b);
            if (sa != sb) v.fail("unit-leak", "u1;u2", "second unit after [" + c_escape(U1) + "]: " + sa + "  alone: " + sb);
        } else if (n1 < 2) {
            COUNT("unit_pairs_first_unit_silent");
        }
        v.trace_hash = fnv1a(w2.canon, w1.hash());
        v.nontrivial = true;
        return;
    }
    World w1(cfg), w2(cfg);
    instrument_install(w1, io);
    instrument_install(w2, io);
    w1.seal();
    w2.seal();
    // The fresh twin runs B first, before the history has touched anything in the process (errno, any file-scope
    // state of the library), exactly as a fresh process would; the segmentation of B is fixed by the last `cuts` op.
    for (const Op &op : plan.ops)
        if (op.kind == "cuts") cuts = op.a;
    // `b_idle`: B arrives without its terminator and is completed by the idle timer (in both worlds);
    // `joint` = k: the first k bytes of B arrive in the same input call as the end of the last history message
    bool b_idle = plan.k("b_idle", 0) != 0;
    size_t joint = (size_t) clampl(plan.k("joint", 0), 0, 64);
    if (b_idle) {
        while (!B.empty() && (B.back() == '\n' || B.back() == '\r')) B.pop_back();
        if (B.empty()) {
            v.trace_hash = 0;
            return;
        }
    }
    // the head of B must not complete a message of its own inside the joint call (B's messages are counted from the next one)
    {
        size_t lim = 0;
        while (lim < B.size() && B[lim] != '\n' && B[lim] != '\r') lim++;
        if (lim == B.size() && lim > 0 && !b_idle) lim--;   // (an unterminated B may arrive whole in the joint call: the idle timer completes it)
        if (joint > lim) joint = lim;
    }
    {
        size_t c2 = 0;
        errno = 0;
        deliver(w2, B, cuts, c2);
        if (b_idle) w2.flush_input();
    }
    size_t last_a = (size_t) -1;
    for (size_t i = 0; i < plan.ops.size(); i++)
        if (plan.ops[i].kind == "a" && plan.ops[i].has_s) last_a = i;
    bool joint_done = false;
    cuts.clear();
    std::unique_ptr<World> w3;
    size_t ci = 0;
    uint64_t clock = 0;
    std::string last_history_op;
    for (size_t opi = 0; opi < plan.ops.size(); opi++) {
        const Op &op = plan.ops[opi];
        if (op.kind == "a" || op.kind == "idle" || op.kind == "over") last_history_op = op.kind;
        if (op.kind == "cuts") {
            cuts = op.a;
            ci = 0;
        } else if (op.kind == "a" && op.has_s && opi == last_a && joint > 0 && opi + 1 == plan.ops.size() - 1 && !op.s.empty() &&
                   (op.s.back() == '\n' || op.s.back() == '\r') && op.s.size() + joint < (size_t) cfg.inbuf - 1 && w1.ctx->buffer.position == 0) {
            // the end of the history and the beginning of B in one input call
            w1.input(op.s + B.substr(0, joint));
            if (w1.pending() != B.substr(0, joint)) {
                // the history message was not a complete message after all (its "terminator" was block or string content): the
                // scenario does not exist for this pair
                COUNT("joint_call_not_applicable");
                v.trace_hash = 0;
                return;
            }
            joint_done = true;
            COUNT("probe_history_end_and_start_of_b_in_one_call");
            COUNT("history_messages");
            clock += op.s.size();
        } else if (op.kind == "a" && op.has_s) {
            deliver(w1, op.s, cuts, ci);
            COUNT("history_messages");
            clock += op.s.size();
        } else if (op.kind == "idle") {
            if (w1.ctx->buffer.position > 0) COUNT("fault_idle_flush_with_pending");
            w1.flush_input();
            clock += 5000;
        } else if (op.kind == "over") {
            // oversize chunk: overruns the input buffer (-363), buffer invalidated
            std::string junk((size_t) cfg.inbuf + (size_t) clampl(op.arg(0), 0, 50), 'Z');
            if (w1.ctx->buffer.position > 0) COUNT("fault_oversize_chunk_with_pending_bytes");
            w1.input(junk);
            COUNT("fault_oversize_chunk");
        } else if (op.kind == "fwpush") {
            w1.fw_push((int) (int16_t) op.arg(0), nullptr, 0);
        } else if (op.kind == "other" && op.has_s) {
            // a second instrument context served by the same firmware image: its traffic is no part of w1's history
            if (!w3) {
                w3.reset(new World(cfg));
                instrument_install(*w3, io);
                w3->seal();
            }
            w3->input(op.s);
            COUNT("other_context_messages");
        }
    }
    // A must be terminated: a partial message that is still pending is executed by the idle timer before B arrives.
    // After an overrun or an idle flush the library itself must have emptied the buffer; nothing is flushed then,
    // so that a stale remainder shows up as a difference in B.
    if (w1.ctx->buffer.position > 0 && last_history_op == "a" && !joint_done) {   // (after a joint call the pending bytes are B's own head)
        w1.flush_input();
        COUNT("fault_idle_flush_with_pending");
    }
    size_t m0 = w1.msgs.size(), o0 = w1.out.size();
    int f0 = w1.flushes;
    std::vector<long> bcuts = cuts;
    size_t c1 = 0;
    deliver(w1, joint_done ? B.substr(joint) : B, bcuts, c1);
    if (b_idle) {
        w1.flush_input();
        COUNT("fault_idle_flush_completes_b");
    }
    std::string t1 = observable_trace(w1, m0, true, (size_t) -1, true), t2 = observable_trace(w2, 0, true, (size_t) -1, true);
    std::string e1 = slice_errs(w1, m0), e2 = slice_errs(w2, 0);
    if (reads_status(w1, m0) || reads_status(w2, 0))
        COUNT("b_reads_status_exempt");   // a mutated B can turn into a status query: exempt by the property's own words
    else if (t1 != t2)
        v.fail("msg-leak", "handlers", "B=\"" + c_escape(B).substr(0, 100) + "\" after history vs fresh: " + first_diff(t2, t1));
    else if (w1.out.substr(o0) != w2.out)
        v.fail("msg-leak", "out", "B=\"" + c_escape(B).substr(0, 100) + "\" wrote \"" + c_escape(w1.out.substr(o0)) + "\" after history, \"" + c_escape(w2.out) + "\" fresh");
    else if (w1.flushes - f0 != w2.flushes)
        v.fail("msg-leak", "flush", fmt("flush count for B differs: %d after history, %d fresh", w1.flushes - f0, w2.flushes));
    else if (e1 != e2)
        v.fail("msg-leak", "errors", "codes raised by B differ: [" + e1 + "] after history, [" + e2 + "] fresh");
    else if (w1.pending() != w2.pending())
        v.fail("msg-leak", "pending", "remainder after B differs: \"" + c_escape(w1.pending()) + "\" vs \"" + c_escape(w2.pending()) + "\"");
    v.trace_hash = fnv1a(w2.canon, w1.hash());
    v.nontrivial = w1.nontrivial;
    v.sim_ms = clock;
}

void generate_c09(Rng &r, const GenOpts &g, Plan &p) {
    MsgGenOpts mb;
    mb.status_cmds = false;   // B must not read status or the queue (effects through them are exempt)
    mb.string_nl = !g.avoids("quoted_newline");
    mb.malformed = r.chance(1, 5);
    p.knob["queue"] = r.range(1, 8);
    if (r.chance(1, 4)) p.knob["inbuf"] = r.range(64, 160);
    if (r.chance(1, 8)) p.knob["wr_mode"] = r.range(1, 3);
    if (r.chance(1, 5)) {
        // unit isolation: U1;U2 versus U2 alone
        static const char *u1s[] = {"TEST:TREEA?", "TEST:FAIL?", "TEST:FAIL", "TEST:BLKH?", "TEST:PART 1,2,3", "TEST:NOPE", "TEST:MULT?", "TEST:ERR", "TEST:INT32? 'x'",
                                    "TEST:ECHO? #15ab;cd", "TEST:TEXT? \"a;b\"", "TEST:OPT? 1", "TEST:NORE?", "TEST:ARB? #13abc"};
        static const char *u2s[][2] = {{"TREEB?", ":TEST:TREEB?"},        {":TEST:TREEB?", "TEST:TREEB?"},          {"MULT?", "TEST:MULT?"},
                                       {"ECHO? 1,\"s\",#12ab", "TEST:ECHO? 1,\"s\",#12ab"}, {"INT32? 42", ":TEST:INT32? 42"}, {"OPT?", "TEST:OPT?"},
                                       {"OPT? 5", "TEST:OPT? 5"},        {"TEXT? 'q'", "TEST:TEXT? 'q'"},          {"ARB? #13xyz", "TEST:ARB? #13xyz"},
                                       {"INT32?", "TEST:INT32?"},        {"PART 1,2", "TEST:PART 1,2"},            {"FAIL?", "TEST:FAIL?"},
                                       {"NUMB? 10 V", "TEST:NUMB? 10 V"}, {"BLKD?", "TEST:BLKD?"}, {"BLKT?", "TEST:BLKT?"}, {"NULL 1,2", "TEST:NULL 1,2"}, {"NULL?", "TEST:NULL?"}, {"*IDN?", "*IDN?"},                      {":STUB?", "STUB?"}};
        p.knob["unit_mode"] = 1;
        size_t k = r.below(sizeof u2s / sizeof u2s[0]);
        p.ops.push_back(Op("u1", {}, u1s[r.below(sizeof u1s / sizeof u1s[0])]));
        p.ops.push_back(Op("b", {}, u2s[k][0]));
        p.ops.push_back(Op("babs", {}, u2s[k][1]));
        return;
    }
    if (r.chance(1, 25)) {
        // conversion state: a literal that overflows its reader, then the largest (or smallest) value the same family can hold
        static const char *over[] = {"TEST:UINT64? 99999999999999999999", "TEST:INT64? -99999999999999999999", "TEST:DOUB? 1e999", "TEST:FLO? 1E39", "TEST:INT32? 99999999999999999999",
                                     "TEST:ECHO? 99999999999999999999,1e999", "TEST:UINT32? #HFFFFFFFFFFFFFFFFFF", "TEST:NUMB? 1e999 V"};
        static const char *edge[] = {"TEST:UINT64? #HFFFFFFFFFFFFFFFF", "TEST:UINT64? 18446744073709551615", "TEST:INT64? 9223372036854775807", "TEST:INT64? -9223372036854775808",
                                     "TEST:DOUB? 1.7976931348623157e308", "TEST:UINT32? 4294967295", "TEST:INT32? -2147483648", "TEST:ECHO? #HFFFFFFFFFFFFFFFF,18446744073709551615",
                                     "TEST:UINT64? #Q1777777777777777777777", "TEST:FLO? 3.4028235E38"};
        long nh = r.range(1, 3);
        for (long i = 0; i < nh; i++) p.ops.push_back(Op("a", {}, std::string(over[r.below(sizeof over / sizeof over[0])]) + gen_terminator(r)));
        p.ops.push_back(Op("b", {}, std::string(edge[r.below(sizeof edge / sizeof edge[0])]) + gen_terminator(r)));
        return;
    }
    if (r.chance(1, 30)) {
        // the application swaps its unit table and swaps back: what a suffix meant under the other table must not stick
        static const char *withsuf[] = {"TEST:NUMB? 5 mVpp", "TEST:NUMB? 1.5 VRMS", "TEST:NUMB 3 dbc", "TEST:NUMB? 10 V", "TEST:NUMB? 2 MV", "TEST:NUMB? 7 KHZ"};
        long k = r.range(1, 3);
        p.ops.push_back(Op("a", {}, std::string("TEST:UNIT ") + (r.chance(3, 4) ? "1" : "2") + gen_terminator(r)));
        for (long i = 0; i < k; i++) p.ops.push_back(Op("a", {}, std::string(withsuf[r.below(6)]) + gen_terminator(r)));
        p.ops.push_back(Op("a", {}, std::string("TEST:UNIT 0") + gen_terminator(r)));
        p.ops.push_back(Op("b", {}, std::string(withsuf[r.below(6)]) + gen_terminator(r)));
        return;
    }
    MsgGenOpts ma;
    ma.string_nl = mb.string_nl;
    ma.malformed = r.chance(1, 3);
    long n = r.range(1, 6);
    static const char *broken[] = {"TEST:BLKH?", "TEST:FAIL?", "TEST:PART 1,2,3", "TEST:ARB? #15ab", "TEST:ECHO? #213abc", "TEST:TR", "TEST:TEXT? \"abc", "TEST:ECHO? 1,",
                                   "TEST:MULT?;TEST:FAIL?", "TEST:TREEA?;TEST:NOPE;TREEB?", "*ESE", "TEST:ECHO? (1,2", "SYST:ERR?;TEST:BLKH?"};
    for (long i = 0; i < n; i++) {
        if (r.chance(1, 6)) {
            std::vector<long> c;
            long nc = r.range(1, 3);
            for (long j = 0; j < nc; j++) c.push_back(r.chance(1, 3) ? 1 : r.range(1, 14));
            p.ops.push_back(Op("cuts", c));
        }
        switch (r.below(8)) {
            case 0: {   // broken, unterminated, then the idle timer fires
                std::string m = broken[r.below(sizeof broken / sizeof broken[0])];
                if (!mb.string_nl || true) {
                    p.ops.push_back(Op("a", {}, m));
                    p.ops.push_back(Op("idle"));
                }
                break;
            }
            case 1: p.ops.push_back(Op("a", {}, std::string(broken[r.below(sizeof broken / sizeof broken[0])]) + gen_terminator(r))); break;
            case 2:
                // oversize chunk, sometimes while a partial message is still buffered
                if (r.chance(1, 2)) p.ops.push_back(Op("a", {}, r.chance(1, 2) ? "TEST:TREEA?;TEST:ECHO? 12" : "TEST:TEXT? \"ab"));
                p.ops.push_back(Op("over", {(long) r.below(20)}));
                break;
            case 3:
                if (r.chance(1, 2))
                    p.ops.push_back(Op("fwpush", {-(long) r.range(100, 400)}));
                else
                    p.ops.push_back(Op("other", {}, (r.chance(1, 2) ? gen_message(r, ma) : std::string(broken[r.below(sizeof broken / sizeof broken[0])])) + (r.chance(1, 4) ? "" : gen_terminator(r))));
                break;
            case 4: {
                std::string m = mutate_bytes(r, gen_message(r, ma), (int) r.range(1, 3));
                p.ops.push_back(Op("a", {}, m + gen_terminator(r)));
                p.ops.push_back(Op("idle"));
                break;
            }
            default: p.ops.push_back(Op("a", {}, gen_message(r, ma) + gen_terminator(r))); break;
        }
    }
    std::string b = gen_message(r, mb);
    if (r.chance(1, 10)) b = mutate_bytes(r, b, 1);
    if (r.chance(1, 6)) p.knob["b_idle"] = 1;
    if (r.chance(1, 6)) p.knob["joint"] = r.chance(1, 2) ? 64 : r.range(1, 12);
    // B is a terminated message: make sure no terminator byte is inside it by accident (mutation) -- then it would be two messages, still fine
    p.ops.push_back(Op("b", {}, b + gen_terminator(r)));
}

const Property C08 = {
    "C08",
    "Behaviour depends on the byte stream, not on how it is cut into input calls",
    {"malloc"},
    generate_c08,
    execute_c08,
    {"probe_split_inside_block_header", "probe_split_inside_block_body", "probe_split_inside_quote", "probe_split_inside_exponent", "probe_split_inside_crlf",
     "probe_split_inside_compound_header", "probe_two_messages_in_one_call", "probe_remainder_after_call", "probe_idle_flush_with_pending_bytes",
     "single_split_sweeps"},
    "streams of 1..8 well-formed or mutated messages (blocks with embedded terminators, quoted strings, empty units, CR/LF/CRLF endings, unterminated tails) fed "
    "to twin worlds built from the same knobs: R one byte per call, S under a seeded schedule (single split point, uniform size 2..20, random multi-way, "
    "all at once; for 1 run in 16 every single split point of a stream <= 96 bytes is swept); buffer = longest pending run + 2 + slack. Compared: handler "
    "invocations with parameters and typed values, output bytes, flush count, error sequence, drained queue, remainder. A zero-length call is compared with "
    "SCPI_Parse of the pending bytes in a third world. Also: byte order marks, XON/XOFF, NUL and extra line-end bytes around messages, quotes inside parentheses, boundary numeric literals, bursts of 30..120 short lines in one call. distinct_nontrivial = distinct hashes of (R trace, S traces).",
};
const Property C09 = {
    "C09",
    "Messages and units are isolated: nothing but status and errors carries over",
    {"malloc"},
    generate_c09,
    execute_c09,
    {"fault_idle_flush_with_pending", "fault_oversize_chunk", "fault_oversize_chunk_with_pending_bytes", "unit_pairs", "history_messages", "other_context_messages"},
    "world 1: fresh context, history A1..An (n=1..6) of well-formed, mutated and deliberately broken messages (half blocks, failing handlers, unread parameters, "
    "unterminated text + idle flush, oversize chunks, firmware errors; traffic on a second context in between), then B; world 2: B alone, run first. B's handler invocations, parameters, output bytes, flush count and "
    "newly raised codes (-350 masked) must be equal. One run in five checks unit isolation: U1;U2 versus U2 alone. Also: the head (or all) of B in the same input call as the end of the history, B completed by the idle timer, overflowing literals followed by the extreme value of the same reader (errno), unit-table swaps, overlapping and long-prefix table entries; a B that reads status or the queue is exempt. distinct_nontrivial = distinct hashes of both worlds' traces.",
};
PropertyRegistrar r08(&C08), r09(&C09);

}   // namespace
