// C11 (status byte == summary of the registers behind it) and
// C12 (events classified, latched, announced) share one workload: a controller
// sending status commands over a segmenting link, interleaved with a firmware
// task that writes registers and the error queue, also from inside handlers.
#include "../world.h"

namespace {

enum { K_REGSET = 0, K_SETBITS, K_CLRBITS, K_PUSH, K_POP, K_CLEAR, K_COUNT, K_NKINDS };

// the register groups as the oracle knows them (written down here, not read from the library's tables);
// -1 = the group has no such register
struct Grp {
    int ev, en, cond, ptf, ntf;
};
const Grp GROUPS[] = {
    {SCPI_REG_ESR, SCPI_REG_ESE, -1, -1, -1},
    {SCPI_REG_OPER, SCPI_REG_OPERE, SCPI_REG_OPERC, -1, -1},
    {SCPI_REG_QUES, SCPI_REG_QUESE, SCPI_REG_QUESC, -1, -1},
#if USE_CUSTOM_REGISTERS
    // build configuration "user" (sim/userconfig/scpi_user_config.h)
    {USER_REG_VOLT, USER_REG_VOLTE, USER_REG_VOLTC, USER_REG_VOLTP, USER_REG_VOLTN},   // summary -> QUESC bit 0
    {USER_REG_AUX, USER_REG_AUXE, USER_REG_AUXC, -1, -1},                              // summary -> CHANC bit 3
    {USER_REG_INST, USER_REG_INSTE, USER_REG_INSTC, -1, -1},                           // summary -> QUESC bit 13
    {USER_REG_ISUM, USER_REG_ISUME, USER_REG_ISUMC, -1, -1},                           // summary -> INSTC bit 1
    {USER_REG_CHAN, USER_REG_CHANE, USER_REG_CHANC, -1, -1},                           // summary -> ISUMC bit 2
#endif
};
int all_event_mask() {
    int m = 0;
    for (auto &g : GROUPS) m |= 1 << g.ev;
    return m;
}

int esr_class(int code) {
    if (code <= -100 && code >= -199) return ESR_CER;
    if (code <= -200 && code >= -299) return ESR_EER;
    if (code <= -300 && code >= -399) return ESR_DER;
    if (code >= 1 && code <= 32767) return ESR_DER;
    if (code <= -400 && code >= -499) return ESR_QER;
    if (code <= -500 && code >= -599) return ESR_PON;
    if (code <= -600 && code >= -699) return ESR_URQ;
    if (code <= -700 && code >= -799) return ESR_REQ;
    if (code <= -800 && code >= -899) return ESR_OPC;
    return 0;
}

struct Snap {
    int r[SCPI_REG_COUNT];
    int count;
};

struct Run {
    World &w;
    Verdict &v;
    bool c11, c12;
    Snap last;             // snapshot at the previous observation point
    size_t srq_seen = 0;   // number of SRQ callbacks at the previous observation point
    int unit_clear_mask = 0;   // registers the running unit may legitimately clear (bit per register name)
    bool unit_wrote = false;
    std::string last_op = "init";
    int qcap;
    int nested_bits = 0;       // class bits added by pushes made from inside the SRQ callback while the current call was running
    int depth = 0;

    Run(World &w_, Verdict &v_, bool a, bool b) : w(w_), v(v_), c11(a), c12(b), qcap(w_.cfg.queue) { last = snap(); }

    Snap snap() {
        Snap s;
        for (int i = 0; i < SCPI_REG_COUNT; i++) s.r[i] = w.reg(i);
        s.count = SCPI_ErrorCount(w.ctx);
        return s;
    }

    uint64_t abstract_state(const Snap &s) {
        int stb = s.r[SCPI_REG_STB];
        uint64_t h = 0;
        h |= (stb & 0x20) ? 1 : 0;
        h |= (stb & 0x80) ? 2 : 0;
        h |= (stb & 0x08) ? 4 : 0;
        h |= (stb & 0x04) ? 8 : 0;
        h |= (stb & 0x40) ? 16 : 0;
        h |= s.r[SCPI_REG_ESE] ? 32 : 0;
        h |= s.r[SCPI_REG_OPERE] ? 64 : 0;
        h |= s.r[SCPI_REG_QUESE] ? 128 : 0;
        h |= s.r[SCPI_REG_SRE] ? 256 : 0;
        h |= (s.count == 0 ? 0 : (s.count >= qcap ? 2 : 1)) << 9;
        h |= (uint64_t) (s.r[SCPI_REG_ESR] ? 1 : 0) << 11;
        h |= (uint64_t) (s.r[SCPI_REG_OPER] ? 1 : 0) << 12;
        h |= (uint64_t) (s.r[SCPI_REG_QUES] ? 1 : 0) << 13;
        h |= (uint64_t) (stb & 0x13) << 14;
        h |= (uint64_t) ((stb & 0xFF00) ? 1 : 0) << 20;
        h |= (uint64_t) ((s.r[SCPI_REG_SRE] & 0xFF00) ? 1 : 0) << 21;
        return h;
    }

    // C11: pure state invariant computed from SCPI_RegGet and SCPI_ErrorCount only
    void check_c11(const Snap &s, const char *where) {
        if (!c11 || v.violated) return;
        int stb = s.r[SCPI_REG_STB];
        struct {
            int bit;
            bool want;
            const char *name;
        } rules[] = {
            {0x20, (s.r[SCPI_REG_ESR] & s.r[SCPI_REG_ESE]) != 0, "esb"},
            {0x80, (s.r[SCPI_REG_OPER] & s.r[SCPI_REG_OPERE]) != 0, "oper"},
            {0x08, (s.r[SCPI_REG_QUES] & s.r[SCPI_REG_QUESE]) != 0, "ques"},
            {0x04, s.count > 0, "eav"},
            {0x40, ((stb & ~0x40) & (s.r[SCPI_REG_SRE] & ~0x40)) != 0, "mss"},
        };
        for (auto &r : rules) {
            bool have = (stb & r.bit) != 0;
            if (have != r.want) {
                v.fail(std::string("stb-") + r.name, fmt("bit=%s have=%d want=%d after=%s", r.name, have, r.want, last_op.c_str()),
                       fmt("at %s after op [%s]: STB=0x%x SRE=0x%x ESR=0x%x ESE=0x%x OPER=0x%x OPERE=0x%x QUES=0x%x QUESE=0x%x count=%d", where,
                           last_op.c_str(), stb, s.r[SCPI_REG_SRE], s.r[SCPI_REG_ESR], s.r[SCPI_REG_ESE], s.r[SCPI_REG_OPER], s.r[SCPI_REG_OPERE],
                           s.r[SCPI_REG_QUES], s.r[SCPI_REG_QUESE], s.count));
                return;
            }
        }
    }

    // C12 rule 4b: MSS 0 -> 1 between two observation points needs at least one SRQ callback in between
    void check_srq_edge(const Snap &s, const char *where) {
        if (!c12 || v.violated) return;
        bool before = (last.r[SCPI_REG_STB] & 0x40) != 0, after = (s.r[SCPI_REG_STB] & 0x40) != 0;
        if (!before && after && w.srq_vals.size() == srq_seen) {
            v.fail("srq-missing", fmt("after=%s", last_op.c_str()),
                   fmt("MSS rose 0->1 at %s after op [%s] without a service-request callback (STB 0x%x -> 0x%x)", where, last_op.c_str(),
                       last.r[SCPI_REG_STB], s.r[SCPI_REG_STB]));
        }
    }

    // C12 rule 3: event bits persist across operations that are not defined to clear them
    void check_persist(const Snap &before, const Snap &after, int may_clear_mask, const char *where) {
        if (!c12 || v.violated) return;
        for (auto &g : GROUPS) {
            int reg = g.ev;
            if (may_clear_mask & (1 << reg)) continue;
            int lost = before.r[reg] & ~after.r[reg];
            if (lost) {
                v.fail("event-lost", fmt("reg=%d after=%s", reg, last_op.c_str()),
                       fmt("event register %d lost bits 0x%x at %s during op [%s] which is not defined to clear it (0x%x -> 0x%x)", reg, lost, where,
                           last_op.c_str(), before.r[reg], after.r[reg]));
                return;
            }
        }
    }

    void observe(const char *where) {
        Snap s = snap();
        check_c11(s, where);
        check_srq_edge(s, where);
        if (g_collect) {
            uint64_t a = abstract_state(last), b = abstract_state(s);
            g_sets.add("state", b);
            g_sets.add("transition", mix64(a * 1315423911ULL + b) ^ fnv1a(last_op.substr(0, last_op.find(' '))));
        }
        last = s;
        srq_seen = w.srq_vals.size();
    }

    // one firmware action; used from the firmware task and from inside handlers (FW:ACT)
    void fw_action(int kind, int reg, int val, const char *who) {
        kind = ((kind % K_NKINDS) + K_NKINDS) % K_NKINDS;
        reg = ((reg % SCPI_REG_COUNT) + SCPI_REG_COUNT) % SCPI_REG_COUNT;
        val &= 0xFFFF;
        if (reg == SCPI_REG_STB && kind <= K_CLRBITS) {
            // only non-summary bits are in the history alphabet: 0, 1, 4 and the bits above 7
            val &= 0xFF13;
            if (kind == K_REGSET) kind = K_SETBITS;
        }
        Snap before = snap();
        size_t srq_before = w.srq_vals.size();
        (void) srq_before;
        int clear_mask = 0;
        switch (kind) {
            case K_REGSET:
                last_op = fmt("%s-regset r%d 0x%x", who, reg, val);
                clear_mask = 1 << reg;
                if (reg == SCPI_REG_ESE || reg == SCPI_REG_OPERE || reg == SCPI_REG_QUESE || reg == SCPI_REG_SRE) {
                    COUNT("fw_enable_write");
                    if ((reg == SCPI_REG_ESE && before.r[SCPI_REG_ESR]) || (reg == SCPI_REG_OPERE && before.r[SCPI_REG_OPER]) ||
                        (reg == SCPI_REG_QUESE && before.r[SCPI_REG_QUES]))
                        COUNT("probe_enable_written_while_event_set");
                    if (reg == SCPI_REG_SRE && (before.r[SCPI_REG_STB] & 0xBF)) COUNT("probe_sre_written_while_summary_set");
                }
                w.fw_regset(reg, val);
                break;
            case K_SETBITS:
                last_op = fmt("%s-setbits r%d 0x%x", who, reg, val);
                w.fw_regbits(reg, val, true);
                break;
            case K_CLRBITS:
                last_op = fmt("%s-clrbits r%d 0x%x", who, reg, val);
                clear_mask = 1 << reg;
                w.fw_regbits(reg, val, false);
                break;
            case K_PUSH: {
                int code = (int16_t) val;
                last_op = fmt("%s-push %d", who, code);
                bool full = before.count >= qcap;
                if (depth == 0) nested_bits = 0;
                depth++;
                w.fw_push(code, nullptr, 0);
                depth--;
                if (depth > 0) nested_bits |= esr_class(code) | ESR_DER;   // (DER: the nested push may have overflowed the queue)
                Snap after = snap();
                if (c12 && !v.violated) {
                    int want = before.r[SCPI_REG_ESR] | esr_class(code);
                    int got = after.r[SCPI_REG_ESR];
                    bool ok = got == want || (full && got == (want | ESR_DER));
                    // a push made from inside the SRQ callback this call caused adds its own class (and DER if it overflowed)
                    if (!ok && depth == 0 && nested_bits) ok = (got & ~nested_bits) == (want & ~nested_bits) && (got & ~(want | nested_bits)) == 0;
                    if (!ok)
                        v.fail("push-class", fmt("code=%d class=0x%x got=0x%x", code, esr_class(code), got & ~before.r[SCPI_REG_ESR]),
                               fmt("push of %d: ESR 0x%x -> 0x%x, expected 0x%x%s", code, before.r[SCPI_REG_ESR], got, want,
                                   full ? " (queue was full)" : ""));
                }
                if (full) COUNT("fault_queue_overflow");
                break;
            }
            case K_POP: {
                last_op = fmt("%s-pop", who);
                int code;
                std::string text;
                bool has;
                w.fw_pop(code, text, has);
                break;
            }
            case K_CLEAR:
                last_op = fmt("%s-clear", who);
                w.fw_clear();
                break;
            case K_COUNT:
                last_op = fmt("%s-count", who);
                w.fw_count();
                break;
        }
        Snap after = snap();
        // C12 rule 2: a 0->1 change of a condition bit latches the same bit in the event register
        // (whether the bit was written by the firmware or is the summary of a group below it; where the group has a
        // positive-transition filter, for the bits the filter lets through)
        if (c12 && !v.violated && kind <= K_CLRBITS) {
            for (auto &g : GROUPS) {
                if (g.cond < 0) continue;
                int rose = ~before.r[g.cond] & after.r[g.cond];
                if (!rose) continue;
                COUNT(reg == g.cond ? "probe_condition_rise" : "probe_condition_rise_by_summary_from_below");
                if (g.ptf >= 0) {
                    COUNT("probe_condition_rise_in_filtered_group");
                    rose &= before.r[g.ptf];
                }
                if (rose & ~after.r[g.ev]) {
                    v.fail("cond-latch", fmt("reg=%d", g.cond),
                           fmt("condition register %d 0x%x -> 0x%x during [%s], rising bits 0x%x not latched in event register %d (0x%x)", g.cond,
                               before.r[g.cond], after.r[g.cond], last_op.c_str(), rose, g.ev, after.r[g.ev]));
                    break;
                }
            }
            // condition and filter writes never clear event bits
            for (auto &g : GROUPS)
                if (reg == g.cond || reg == g.ptf || reg == g.ntf) clear_mask = 0;
        }
        check_persist(before, after, clear_mask, "fw");
        if (w.in_handler) {
            unit_wrote = true;
            unit_clear_mask |= clear_mask;
        }
    }
};

Run *g_run = nullptr;

// registers a library status command may clear
int lib_clear_mask(const std::string &pat) {
    if (pat == "*CLS") return all_event_mask();
    if (pat == "*ESR?") return 1 << SCPI_REG_ESR;
    if (pat == "STATus:OPERation[:EVENt]?") return 1 << SCPI_REG_OPER;
    if (pat == "STATus:QUEStionable[:EVENt]?") return 1 << SCPI_REG_QUES;
    if (pat == "STATus:PRESet") return 1 << SCPI_REG_QUES;
    return 0;
}

void execute_status(const Plan &plan, Verdict &v, bool c11, bool c12) {
    WorldCfg cfg;
    cfg.queue = (int) std::max(1L, std::min(16L, plan.k("queue", 4)));
    cfg.inbuf = (int) std::max(40L, std::min(400L, plan.k("inbuf", 256)));
    cfg.wr_mode = (int) (plan.k("wr_mode", 0) & 3);
    // firmware may install no error callback at all (C11 does not need it as an observer; C12 does)
    cfg.with_error_cb = !(c11 && !c12 && plan.k("no_error_cb", 0));
    if (!cfg.with_error_cb) COUNT("fault_no_error_callback_installed");
    cfg.control_err = plan.k("control_err", 0) != 0;   // the SRQ transport fails (as examples/test-tcp-srq does when its control socket is gone)
    if (cfg.control_err) COUNT("fault_srq_callback_reports_failure");
    cfg.with_reset = plan.k("no_reset_cb", 0) == 0;
    // a context used through the status/error API only, with no interface at all (C11; nothing can be observed for C12 then)
    bool no_interface = c11 && !c12 && plan.k("no_interface", 0) != 0;
    World w(cfg);
    w.add_standard_commands();
    w.add_command("FW:ACT", [](World &ww) {
        int32_t k = 0, r = 0, val = 0;
        if (!SCPI_ParamInt32(ww.ctx, &k, TRUE)) return SCPI_RES_ERR;
        if (!SCPI_ParamInt32(ww.ctx, &r, TRUE)) return SCPI_RES_ERR;
        if (!SCPI_ParamInt32(ww.ctx, &val, TRUE)) return SCPI_RES_ERR;
        COUNT("fw_action_inside_handler");
        g_run->fw_action(k, r, val, "inh");
        return SCPI_RES_OK;
    });
    w.seal();
    if (no_interface) {
        w.ctx->interface = nullptr;
        COUNT("fault_no_interface_at_all");
    }
    Run run(w, v, c11, c12);
    g_run = &run;
    std::vector<int> clear_masks;
    for (size_t i = 0; i < w.patterns.size(); i++) clear_masks.push_back(lib_clear_mask(w.patterns[i]));

    Snap unit_begin = run.snap();
    w.observer = [&](World &ww, const char *where) {
        if (!strcmp(where, "fw")) {
            run.observe(where);
            return;
        }
        if (!strcmp(where, "unit-end")) {
            // C12 rule 3 per message unit
            UnitRec *u = ww.unit();
            int mask = 0;
            if (u && u->tag >= 0 && u->tag < (int) clear_masks.size() && u->invocations > 0) mask = clear_masks[u->tag];
            mask |= run.unit_clear_mask;
            Snap now = run.snap();
            run.last_op = fmt("unit %s", u ? c_escape(u->cmd_raw.empty() ? u->text.substr(0, 24) : u->cmd_raw).c_str() : "?");
            run.check_persist(unit_begin, now, mask, "unit-end");
            run.observe(where);
            unit_begin = now;
            run.unit_clear_mask = 0;
            run.unit_wrote = false;
            return;
        }
        if (!strcmp(where, "handler-end")) {
            UnitRec *u = ww.unit();
            run.last_op = fmt("handler %s", u ? c_escape(u->cmd_raw).c_str() : "?");
            run.observe(where);
            return;
        }
        run.observe(where);
        if (!strcmp(where, "msg-end") || !strcmp(where, "input-end")) unit_begin = run.snap();
    };
    // firmware whose service-request transport raises an error of its own (control channel not connected): the n-th
    // SRQ callback pushes one error from inside the callback
    long srq_push_at = plan.k("srq_push_at", 0);
    int srq_push_code = (int) (int16_t) plan.k("srq_push_code", -310);
    long srq_calls = 0;
    bool in_srq_push = false;
    w.srq_observer = [&](World &ww, int val) {
        COUNT("srq_callbacks");
        srq_calls++;
        if (c12 && !v.violated) {
            int stb0 = ww.reg(SCPI_REG_STB);
            if (!(val & 0x40) || val != stb0)
                v.fail("srq-value", fmt("val=0x%x stb=0x%x", val, stb0),
                       fmt("service-request callback got 0x%x while STB is 0x%x (MSS must be set and the value must be the current status byte)", val, stb0));
        }
        if (srq_push_at > 0 && srq_calls == srq_push_at && !in_srq_push && !v.violated) {
            in_srq_push = true;
            COUNT("fault_error_pushed_inside_srq_callback");
            std::string keep = run.last_op;
            run.fw_action(K_PUSH, 0, srq_push_code, "srqcb");
            run.last_op = keep + " (+push inside the SRQ callback)";
            in_srq_push = false;
        }
    };
    // firmware that re-reports a latched fault from its own backlog whenever it is told (error callback with 0) that the
    // SCPI queue ran empty
    long refill_left = std::max(0L, std::min(3L, plan.k("errcb_refill", 0)));
    w.err_observer = [&](World &ww, int code) {
        if (code == 0 && refill_left > 0 && !v.violated) {
            refill_left--;
            COUNT("fault_error_pushed_inside_error_callback_on_empty");
            std::string keep = run.last_op;
            run.fw_action(K_PUSH, 0, -(int) (310 + refill_left), "errcb");
            run.last_op = keep + " (+push inside the error callback)";
            return;
        }
        if (!c12 || v.violated || code == 0) return;
        // -350 announced by the library itself on overflow: whether that counts as a "queued error" is open, not asserted
        if (code == -350) return;
        int cls = esr_class(code);
        if (cls && !(ww.reg(SCPI_REG_ESR) & cls))
            v.fail("err-class-missing", fmt("code=%d", code), fmt("error %d announced but ESR=0x%x lacks its class bit 0x%x", code, ww.reg(SCPI_REG_ESR), cls));
    };

    std::vector<long> cuts;
    size_t cut_i = 0;
    uint64_t clock = 0;
    uint64_t ilv = 0;   // interleaving signature: order of (actor, op kind)
    for (const Op &op : plan.ops) {
        if (v.violated) break;
        ilv = mix64(ilv * 31 + fnv1a(op.kind) + (op.kind == "fw" ? (uint64_t) (op.arg(0) % K_NKINDS) * 7 + (uint64_t) (op.arg(1) % SCPI_REG_COUNT) * 131 : (uint64_t) std::count(op.s.begin(), op.s.end(), ';')));
        if (op.kind == "cuts") {
            cuts = op.a;
            cut_i = 0;
        } else if (op.kind == "msg" && op.has_s) {
            if (no_interface) continue;   // no transport: only the firmware task acts
            size_t pos = 0;
            unit_begin = run.snap();
            while (pos < op.s.size() && !v.violated) {
                long n = cuts.empty() ? (long) op.s.size() : cuts[cut_i++ % cuts.size()];
                if (n < 1) n = 1;
                long fre = (long) w.ctx->buffer.length - (long) w.ctx->buffer.position - 1;
                if (n > fre) n = fre;           // C11/C12 do not exercise the overrun path
                if (n < 1) {
                    w.flush_input();
                    continue;
                }
                if ((size_t) n > op.s.size() - pos) n = (long) (op.s.size() - pos);
                run.last_op = "input";
                w.input(op.s.data() + pos, (int) n);
                pos += (size_t) n;
                clock += 1;
            }
            COUNT("controller_messages");
        } else if (op.kind == "fw") {
            run.fw_action((int) op.arg(0), (int) op.arg(1), (int) op.arg(2), "fw");
            COUNT("fw_actions");
            clock += (uint64_t) (op.arg(3) & 0xff);
        } else if (op.kind == "idle") {
            if (no_interface) continue;
            run.last_op = "idle-flush";
            w.flush_input();
            clock += 5000;
            COUNT("fault_idle_flush");
        }
    }
    w.observer = nullptr;
    w.srq_observer = nullptr;
    w.err_observer = nullptr;
    g_run = nullptr;
    if (g_collect) g_sets.add("interleaving", ilv);
    v.trace_hash = w.hash();
    v.nontrivial = w.nontrivial || !plan.ops.empty();
    v.sim_ms = clock;
}

// ---------------------------------------------------------------- generation
int gen_value(Rng &r) {
    static const int rep[] = {0x0001, 0x0020, 0x0040, 0x0100, 0x0004, 0x0008, 0x0010, 0x0080, 0x8000, 0x0002};
    switch (r.below(6)) {
        case 0: return 0;
        case 1: return rep[r.below(4)];
        case 2: return rep[r.below(4)] | rep[r.below(4)];
        case 3: return rep[r.below(10)];
        case 4: return (int) r.below(65536);
        default: return rep[r.below(10)] | rep[r.below(10)];
    }
}

int gen_code(Rng &r) {
    static const int boundary[] = {-100, -199, -200, -299, -300, -399, -400, -499, -500, -599, -600, -699, -700, -799, -800, -899,
                                   -900, -99,  -1,   0,    1,    2,    32767, -32768, -350, -113, -101, -363};
    if (r.chance(1, 2)) return boundary[r.below(sizeof boundary / sizeof boundary[0])];
    if (r.chance(1, 2)) return -(int) r.range(90, 910);
    return (int) (int16_t) r.below(65536);
}

std::string gen_unit(Rng &r, const GenOpts &g) {
    bool no_enable = g.avoids("enable_after_event");
    for (;;) {
        switch (r.below(22)) {
            case 0: if (no_enable) continue; return fmt("*ESE %d", gen_value(r) & 0xFF);
            case 1: return fmt("*SRE %d", r.chance(2, 3) ? (gen_value(r) & 0xFF) : gen_value(r));
            case 2: if (no_enable) continue; return fmt("STAT:OPER:ENAB %d", gen_value(r));
            case 3: if (no_enable) continue; return fmt("STAT:QUES:ENAB %d", gen_value(r));
            case 4: return "*CLS";
            case 5: return "*ESR?";
            case 6: return "STAT:OPER?";
            case 7: return "STAT:QUES?";
            case 8: return "STAT:PRES";
            case 9: return "SYST:ERR?";
            case 10: return "*STB?";
            case 11: return "*OPC";
            case 12: return "XXX";             // undefined header: -113
            case 13: return "*ESE";            // missing parameter: -109
            case 14: return "*SRE?";
            case 15: return "SYST:ERR:COUN?";
            case 16: return "STAT:QUES:COND?";
            case 17: return r.chance(1, 2) ? "*IDN? 1" : "*RST";         // -108 / a command without status semantics
            default: {
                int kind = (int) r.below(K_NKINDS);
                int reg = (int) r.below(SCPI_REG_COUNT);
                if (no_enable && kind == K_REGSET && (reg == SCPI_REG_ESE || reg == SCPI_REG_OPERE || reg == SCPI_REG_QUESE)) continue;
                if (no_enable && kind <= K_CLRBITS && (reg == SCPI_REG_ESE || reg == SCPI_REG_OPERE || reg == SCPI_REG_QUESE)) continue;
                int val = kind == K_PUSH ? (gen_code(r) & 0xFFFF) : gen_value(r);
                if (kind == K_PUSH && val > 32767) return fmt("FW:ACT %d,%d,%d", kind, reg, val - 65536);
                return fmt("FW:ACT %d,%d,%d", kind, reg, val);
            }
        }
    }
}

void generate_status(Rng &r, const GenOpts &g, Plan &p) {
    bool thorough = g.tier == "thorough";
    bool no_enable = g.avoids("enable_after_event");
    p.knob["queue"] = r.range(1, 8);
    if (r.chance(1, 4)) p.knob["inbuf"] = r.range(40, 90);
    if (r.chance(1, 5)) p.knob["wr_mode"] = r.range(1, 3);
    if (r.chance(1, 8)) p.knob["no_error_cb"] = 1;
    if (r.chance(1, 8)) p.knob["control_err"] = 1;
    if (r.chance(1, 6)) p.knob["no_reset_cb"] = 1;
    if (r.chance(1, 16)) p.knob["no_interface"] = 1;
    if (r.chance(1, 8)) p.knob["errcb_refill"] = r.range(1, 3);
    if (r.chance(1, 6)) {
        p.knob["srq_push_at"] = r.range(1, 3);
        p.knob["srq_push_code"] = r.chance(1, 2) ? 310 : gen_code(r);
    }
    long n = r.chance(1, 10) ? r.range(20, thorough ? 200 : 60) : r.range(1, 14);
    int fw_rate = (int) r.below(4);   // 0: none, 1: low, 2: even, 3: high
#if USE_CUSTOM_REGISTERS
    if (r.chance(1, 2)) {
        // the application presets its transition filters as STATus:PRESet prescribes (PTR all ones, NTR zero) or otherwise
        p.ops.push_back(Op("fw", {K_REGSET, USER_REG_VOLTP, r.chance(2, 3) ? 0xFFFF : gen_value(r), 0}));
        p.ops.push_back(Op("fw", {K_REGSET, USER_REG_VOLTN, r.chance(2, 3) ? 0 : gen_value(r), 0}));
        if (r.chance(1, 2)) p.ops.push_back(Op("fw", {K_REGSET, USER_REG_VOLTE, r.chance(1, 2) ? 0xFFFF : gen_value(r), 0}));
        if (r.chance(1, 2)) {
            // the whole fan-out enabled, so that one bit at the bottom travels up to the status byte
            p.ops.push_back(Op("fw", {K_REGSET, USER_REG_AUXE, 0xFFFF, 0}));
            p.ops.push_back(Op("fw", {K_REGSET, USER_REG_CHANE, 0xFFFF, 0}));
            p.ops.push_back(Op("fw", {K_REGSET, USER_REG_ISUME, 0xFFFF, 0}));
            p.ops.push_back(Op("fw", {K_REGSET, USER_REG_INSTE, 0xFFFF, 0}));
            p.ops.push_back(Op("fw", {K_REGSET, SCPI_REG_QUESE, 0xFFFF, 0}));
            if (r.chance(1, 2)) p.ops.push_back(Op("fw", {K_REGSET, SCPI_REG_SRE, 0x08, 0}));
            static const int bottom[] = {USER_REG_AUXC, USER_REG_AUX, USER_REG_CHANC, USER_REG_ISUMC, USER_REG_ISUM};
            p.ops.push_back(Op("fw", {r.chance(1, 2) ? K_REGSET : K_SETBITS, bottom[r.below(5)], gen_value(r) | 1, 0}));
        }
        if (fw_rate == 0) fw_rate = 2;
    }
#endif
    for (long i = 0; i < n; i++) {
        bool fw = fw_rate == 0 ? false : fw_rate == 1 ? r.chance(1, 5) : fw_rate == 2 ? r.chance(1, 2) : r.chance(4, 5);
        if (fw) {
            int kind = (int) r.below(K_NKINDS);
            if (r.chance(1, 3)) kind = K_PUSH;
            int reg = (int) r.below(SCPI_REG_COUNT);
            if (no_enable && kind <= K_CLRBITS && (reg == SCPI_REG_ESE || reg == SCPI_REG_OPERE || reg == SCPI_REG_QUESE)) {
                i--;
                continue;
            }
            long val = kind == K_PUSH ? gen_code(r) : gen_value(r);
            p.ops.push_back(Op("fw", {kind, reg, val, (long) r.below(8)}));
        } else {
            if (r.chance(1, 6)) {
                std::vector<long> c;
                long nc = r.range(1, 4);
                for (long j = 0; j < nc; j++) c.push_back(r.chance(1, 3) ? 1 : r.range(1, 12));
                p.ops.push_back(Op("cuts", c));
            }
            std::string m;
            long nu = r.chance(2, 3) ? 1 : r.range(2, 4);
            for (long j = 0; j < nu; j++) {
                if (j) m += ";";
                m += gen_unit(r, g);
            }
            static const char *term[] = {"\n", "\r\n", "\r"};
            m += term[r.below(3)];
            p.ops.push_back(Op("msg", {}, m));
            if (r.chance(1, 40)) p.ops.push_back(Op("idle"));
        }
    }
    if (thorough && p.prop == "C12" && ((p.seed >> 20) % 64) == 0) {
        // thorough tier: walk a slice of all 65536 codes inside the history, in seeded order (chosen by seed, so that the
        // long runs are spread over all workers)
        long base = (long) ((p.seed >> 28) % 64) * 1024;
        for (long j = 0; j < 1024; j++) {
            long code = (long) (int16_t) ((base + j * 7919 + (long) (p.seed & 0xffff)) & 0xFFFF);
            p.ops.push_back(Op("fw", {K_PUSH, 0, code, 0}));
            if ((j & 3) == 3) p.ops.push_back(Op("fw", {K_CLEAR, 0, 0, 0}));
            if ((j & 15) == 15) p.ops.push_back(Op("msg", {}, "*ESR?\n"));
        }
    }
}

void exec_c11(const Plan &p, Verdict &v) { execute_status(p, v, true, false); }
void exec_c12(const Plan &p, Verdict &v) { execute_status(p, v, false, true); }

const Property C11 = {
    "C11",
    "The status byte always equals the summary of the registers behind it",
    {"malloc", "user"},
    generate_status,
    exec_c11,
    {"probe_enable_written_while_event_set", "probe_sre_written_while_summary_set", "fw_action_inside_handler", "fault_queue_overflow",
     "srq_callbacks", "fault_idle_flush", "fault_no_error_callback_installed"},
    "seeded histories of 1..60 (thorough: ..200) events interleaving controller status messages (1-4 units, seeded segmentation) with firmware "
    "register/error-queue calls, some placed inside handlers; invariant evaluated from SCPI_RegGet/SCPI_ErrorCount after every API call, handler, "
    "unit and input call. distinct_nontrivial = distinct canonical trace hashes of runs in which a handler ran or an error was raised.",
};
const Property C12 = {
    "C12",
    "Events are classified, latched and announced as IEEE 488.2 / SCPI prescribe",
    {"malloc", "user"},
    generate_status,
    exec_c12,
    {"probe_condition_rise", "srq_callbacks", "fault_queue_overflow", "fw_action_inside_handler"},
    "same histories as C11; transition rules on before/after snapshots: push class (ESR_after == ESR_before | class(code), DER tolerated on overflow), "
    "condition 0->1 latches event, event bits persist across non-clearing ops and units, SRQ callback value == STB with MSS and fired on every MSS "
    "rising edge. distinct_nontrivial = distinct canonical trace hashes of non-trivial runs.",
};
PropertyRegistrar r11(&C11), r12(&C12);

}   // namespace
