#include "world.h"

#include <cstdarg>
#include <cstdlib>

AllocCtl g_alloc;

std::string fmt(const char *f, ...) {
    char buf[1024];
    va_list ap;
    va_start(ap, f);
    vsnprintf(buf, sizeof buf, f, ap);
    va_end(ap);
    return buf;
}

std::string hexs(const std::string &s) {
    static const char *d = "0123456789abcdef";
    std::string o;
    for (unsigned char c : s) {
        o += d[c >> 4];
        o += d[c & 15];
    }
    return o;
}

const char *token_name(int t) {
    switch (t) {
        case SCPI_TOKEN_COMMA: return "COMMA";
        case SCPI_TOKEN_SEMICOLON: return "SEMICOLON";
        case SCPI_TOKEN_COLON: return "COLON";
        case SCPI_TOKEN_SPECIFIC_CHARACTER: return "SPECIFIC";
        case SCPI_TOKEN_QUESTION: return "QUESTION";
        case SCPI_TOKEN_NL: return "NL";
        case SCPI_TOKEN_HEXNUM: return "HEX";
        case SCPI_TOKEN_OCTNUM: return "OCT";
        case SCPI_TOKEN_BINNUM: return "BIN";
        case SCPI_TOKEN_PROGRAM_MNEMONIC: return "MNEM";
        case SCPI_TOKEN_DECIMAL_NUMERIC_PROGRAM_DATA: return "DEC";
        case SCPI_TOKEN_DECIMAL_NUMERIC_PROGRAM_DATA_WITH_SUFFIX: return "DECSUF";
        case SCPI_TOKEN_SUFFIX_PROGRAM_DATA: return "SUFFIX";
        case SCPI_TOKEN_ARBITRARY_BLOCK_PROGRAM_DATA: return "BLOCK";
        case SCPI_TOKEN_SINGLE_QUOTE_PROGRAM_DATA: return "SQ";
        case SCPI_TOKEN_DOUBLE_QUOTE_PROGRAM_DATA: return "DQ";
        case SCPI_TOKEN_PROGRAM_EXPRESSION: return "EXPR";
        case SCPI_TOKEN_COMPOUND_PROGRAM_HEADER: return "HDR";
        case SCPI_TOKEN_INCOMPLETE_COMPOUND_PROGRAM_HEADER: return "HDR_INC";
        case SCPI_TOKEN_COMMON_PROGRAM_HEADER: return "CHDR";
        case SCPI_TOKEN_INCOMPLETE_COMMON_PROGRAM_HEADER: return "CHDR_INC";
        case SCPI_TOKEN_COMPOUND_QUERY_PROGRAM_HEADER: return "QHDR";
        case SCPI_TOKEN_COMMON_QUERY_PROGRAM_HEADER: return "CQHDR";
        case SCPI_TOKEN_WS: return "WS";
        case SCPI_TOKEN_ALL_PROGRAM_DATA: return "ALL";
        case SCPI_TOKEN_INVALID: return "INVALID";
        case SCPI_TOKEN_UNKNOWN: return "UNKNOWN";
        default: return "?";
    }
}

// ------------------------------------------------------------------ callbacks
static World *W(scpi_t *c) { return (World *) c->user_context; }

#ifdef SIM_CONFIG_USER
extern "C" {
const char *scpisim_line_ending = "\r\n";
}
void set_line_ending(int which) {
    static const char *le[] = {"\r\n", "\n", "\r"};
    scpisim_line_ending = le[((which % 3) + 3) % 3];
}
#else
void set_line_ending(int) {}
#endif

static size_t cb_write(scpi_t *c, const char *data, size_t len) {
    World *w = W(c);
    // a transmit routine may do other work (serve another context, raise an error) before it copies the bytes it was handed
    if (w->write_hook) w->write_hook(*w);
    if (w->count_only) {
        w->counted += len;
        size_t keep = len < 32 ? len : 32;
        w->out.append(data, keep);
        w->canon += fmt("W<%zu bytes>\n", len);
        return len;
    }
    w->out.append(data, len);
    if (MsgRec *m = w->msg()) m->out.append(data, len);
    if (w->in_handler)
        if (UnitRec *u = w->unit()) u->out.append(data, len);
    w->canon += "W\"";
    w->canon += c_escape(std::string(data, len));
    w->canon += "\"\n";
    switch (w->cfg.wr_mode) {
        case 1: return len / 2;
        case 2: return 0;
        case 3: return (size_t) -1;
        default: return len;
    }
}

static scpi_result_t cb_flush(scpi_t *c) {
    World *w = W(c);
    w->flushes++;
    if (MsgRec *m = w->msg()) m->flushes++;
    w->canon += "F\n";
    return w->cfg.flush_err ? SCPI_RES_ERR : SCPI_RES_OK;
}

static int cb_error(scpi_t *c, int_fast16_t err) {
    World *w = W(c);
    if (!w) return 0;
    ErrRec e;
    e.code = (int) err;
    e.msg = w->in_parse ? w->cur_msg : -1;
    e.unit = w->in_parse ? w->cur_unit : -1;
    e.in_handler = w->in_handler;
    w->errs.push_back(e);
    if (err != 0) w->nontrivial = true;
    if (MsgRec *m = w->msg()) m->errs.push_back((int) err);
    if (UnitRec *u = w->unit()) u->errs.push_back((int) err);
    if (w->in_call && !w->calls.empty()) w->calls.back().errs.push_back((int) err);
    w->canon += fmt("E%d\n", (int) err);
    if (w->err_observer) w->err_observer(*w, (int) err);
    return 0;
}

static scpi_result_t cb_control(scpi_t *c, scpi_ctrl_name_t ctrl, scpi_reg_val_t val) {
    World *w = W(c);
    if (!w) return SCPI_RES_OK;
    w->canon += fmt("C%d,%d\n", (int) ctrl, (int) val);
    if (ctrl == SCPI_CTRL_SRQ) {
        w->srq_vals.push_back(val);
        if (w->srq_observer) w->srq_observer(*w, val);
    }
    return w->cfg.control_err ? SCPI_RES_ERR : SCPI_RES_OK;
}

static scpi_result_t cb_reset(scpi_t *c) {
    World *w = W(c);
    w->canon += "R\n";
    return SCPI_RES_OK;
}

static scpi_result_t trampoline(scpi_t *c) {
    World *w = W(c);
    int tag = SCPI_CmdTag(c);
    w->handler_calls++;
    w->nontrivial = true;
    UnitRec *u = w->unit();
    UnitRec dummy;
    if (!u) u = &dummy;
    u->invocations++;
    u->tag = tag;
    u->cmd_raw.assign(c->param_list.cmd_raw.data, c->param_list.cmd_raw.length);
    w->canon += fmt("H%d \"%s\"\n", tag, c_escape(u->cmd_raw).c_str());
    scpi_result_t r = SCPI_RES_OK;
    if (tag >= 0 && tag < (int) w->handlers.size() && w->handlers[tag]) {
        w->in_handler = true;
        r = w->handlers[tag](*w);
        w->in_handler = false;
    }
    u = w->unit();
    if (u) u->hres = (int) r;
    w->canon += fmt("H=%d\n", (int) r);
    if (w->observer) w->observer(*w, "handler-end");
    return r;
}

extern "C" void scpi_verif_event(scpi_t *c, int kind, const char *ptr, int len, int value) {
    World *w = W(c);
    if (!w) return;
    switch (kind) {
        case 1: {   // message begin
            MsgRec m;
            m.call = w->in_call ? (int) w->calls.size() - 1 : -1;
            m.text.assign(ptr, len > 0 ? len : 0);
            w->msgs.push_back(std::move(m));
            w->cur_msg = (int) w->msgs.size() - 1;
            w->cur_unit = -1;
            w->in_parse = true;
            if (w->in_call && !w->calls.empty()) w->calls.back().n_msgs++;
            w->canon += "M{\n";
            break;
        }
        case 2: {   // unit detected
            if (w->cur_msg < 0) break;
            if (w->cur_unit >= 0 && w->observer) w->observer(*w, "unit-end");
            UnitRec u;
            u.msg = w->cur_msg;
            u.text.assign(ptr, len > 0 ? len : 0);
            u.hdr_type = value;
            w->msgs[w->cur_msg].units.push_back(std::move(u));
            w->cur_unit = (int) w->msgs[w->cur_msg].units.size() - 1;
            w->canon += fmt("U%d\n", value);
            break;
        }
        case 3: {   // message end
            if (w->cur_msg < 0) break;
            if (w->cur_unit >= 0 && w->observer) w->observer(*w, "unit-end");
            w->msgs[w->cur_msg].result = value;
            w->msgs[w->cur_msg].ended = true;
            w->canon += fmt("M}%d\n", value);
            w->in_parse = false;
            w->cur_unit = -1;
            if (w->observer) w->observer(*w, "msg-end");
            w->cur_msg = -1;
            break;
        }
    }
}

// ------------------------------------------------------------------ World
World::World(const WorldCfg &c) : cfg(c) {
    if (cfg.inbuf < 1) cfg.inbuf = 1;
    if (cfg.queue < 1) cfg.queue = 1;
    if (cfg.heap < 1) cfg.heap = 1;
    ctx = (scpi_t *) malloc(sizeof(scpi_t));
    memset(ctx, 0xA5, sizeof(scpi_t));
    inbuf = (char *) malloc(cfg.inbuf);
    memset(inbuf, 0xEE, cfg.inbuf);
    queue = (scpi_error_t *) malloc(sizeof(scpi_error_t) * cfg.queue);
    memset(queue, 0xA5, sizeof(scpi_error_t) * cfg.queue);
#if SIM_HEAP
    heap = (char *) malloc(cfg.heap);
    memset(heap, 0xEE, cfg.heap);
#endif
    memset(&iface, 0, sizeof iface);
    iface.error = cfg.with_error_cb ? cb_error : nullptr;
    iface.write = cb_write;
    iface.control = cfg.with_control ? cb_control : nullptr;
    iface.flush = cfg.with_flush ? cb_flush : nullptr;
    iface.reset = cfg.with_reset ? cb_reset : nullptr;
    ctx->user_context = nullptr;
}

World::~World() {
    if (getenv("SIM_TRACE")) fprintf(stderr, "---- canonical trace of a world ----\n%s", canon.c_str());   // inspection of a replayed plan only
    if (ctx && table_sealed) {
        // release whatever texts are still queued so that the leak check only sees real leaks
        ctx->user_context = this;
        observer = nullptr;
        srq_observer = nullptr;
        err_observer = nullptr;
        write_hook = nullptr;
        SCPI_ErrorClear(ctx);
    }
    // the input buffer may be partially poisoned by hook H1; ASan accepts free() of it
    free(inbuf);
    free(queue);
    free(heap);
    free(ctx);
}

int World::add_command(const std::string &pattern, Handler h) {
    patterns.push_back(pattern);
    scpi_command_t c;
    c.pattern = patterns.back().c_str();
    c.callback = trampoline;
    c.tag = (int32_t) handlers.size();
    (filling_alt ? alt_table : table).push_back(c);
    handlers.push_back(std::move(h));
    return c.tag;
}

int World::add_null_command(const std::string &pattern) {
    int tag = add_command(pattern, nullptr);
    (filling_alt ? alt_table : table).back().callback = nullptr;
    return tag;
}

int World::add_lib_command(const std::string &pattern, scpi_command_callback_t cb) {
    return add_command(pattern, [cb](World &w) { return cb(w.ctx); });
}

void World::add_standard_commands() {
    add_lib_command("*CLS", SCPI_CoreCls);
    add_lib_command("*ESE", SCPI_CoreEse);
    add_lib_command("*ESE?", SCPI_CoreEseQ);
    add_lib_command("*ESR?", SCPI_CoreEsrQ);
    add_lib_command("*IDN?", SCPI_CoreIdnQ);
    add_lib_command("*OPC", SCPI_CoreOpc);
    add_lib_command("*OPC?", SCPI_CoreOpcQ);
    add_lib_command("*RST", SCPI_CoreRst);
    add_lib_command("*SRE", SCPI_CoreSre);
    add_lib_command("*SRE?", SCPI_CoreSreQ);
    add_lib_command("*STB?", SCPI_CoreStbQ);
    add_lib_command("*TST?", SCPI_CoreTstQ);
    add_lib_command("*WAI", SCPI_CoreWai);
    add_lib_command("SYSTem:ERRor[:NEXT]?", SCPI_SystemErrorNextQ);
    add_lib_command("SYSTem:ERRor:COUNt?", SCPI_SystemErrorCountQ);
    add_lib_command("SYSTem:VERSion?", SCPI_SystemVersionQ);
    add_lib_command("STATus:QUEStionable[:EVENt]?", SCPI_StatusQuestionableEventQ);
    add_lib_command("STATus:QUEStionable:CONDition?", SCPI_StatusQuestionableConditionQ);
    add_lib_command("STATus:QUEStionable:ENABle", SCPI_StatusQuestionableEnable);
    add_lib_command("STATus:QUEStionable:ENABle?", SCPI_StatusQuestionableEnableQ);
    add_lib_command("STATus:OPERation[:EVENt]?", SCPI_StatusOperationEventQ);
    add_lib_command("STATus:OPERation:CONDition?", SCPI_StatusOperationConditionQ);
    add_lib_command("STATus:OPERation:ENABle", SCPI_StatusOperationEnable);
    add_lib_command("STATus:OPERation:ENABle?", SCPI_StatusOperationEnableQ);
    add_lib_command("STATus:PRESet", SCPI_StatusPreset);
}

// the application's own unit table: every standard entry followed by three of its own, spelled the way the front panel shows them
static const scpi_unit_def_t *custom_unit_table() {
    static std::vector<scpi_unit_def_t> t;
    if (t.empty()) {
        for (const scpi_unit_def_t *u = scpi_units_def; u->name; u++) t.push_back(*u);
        scpi_unit_def_t e;
        e.name = "mVpp";
        e.unit = SCPI_UNIT_VOLT;
        e.mult = 1e-3;
        t.push_back(e);
        e.name = "Vrms";
        e.unit = SCPI_UNIT_VOLT;
        e.mult = 1;
        t.push_back(e);
        e.name = "dBc";
        e.unit = SCPI_UNIT_DECIBEL;
        e.mult = 1;
        t.push_back(e);
        e.name = "V/us";   // a compound unit (slew rate) and an exponent unit
        e.unit = SCPI_UNIT_VOLT;
        e.mult = 1e6;
        t.push_back(e);
        e.name = "M3";
        e.unit = SCPI_UNIT_LITER;
        e.mult = 1000;
        t.push_back(e);
        e.name = nullptr;
        e.unit = SCPI_UNIT_NONE;
        e.mult = 0;
        t.push_back(e);
    }
    return t.data();
}

void World::use_units(int which) {
    const scpi_unit_def_t *init = cfg.with_units ? (cfg.custom_units ? custom_unit_table() : scpi_units_def) : nullptr;
    ctx->units = which == 1 ? custom_unit_table() : which == 2 ? nullptr : init;
}

void World::seal() {
    scpi_command_t end;
    end.pattern = nullptr;
    end.callback = nullptr;
    end.tag = 0;
    table.push_back(end);
    alt_table.push_back(end);
    table_sealed = true;
    static const char *idn_default[4] = {"VERIF", "SIM", nullptr, "01-02"};
    const char *idn[4];
    for (int i = 0; i < 4; i++) {
        if (cfg.idn_len[i] == -1) {
            idn[i] = idn_default[i];
        } else if (cfg.idn_len[i] < 0) {
            idn[i] = nullptr;
        } else {
            idn_store[i].clear();
            for (int k = 0; k < cfg.idn_len[i] && k < 200; k++) idn_store[i] += (char) ('A' + (k + i * 7) % 26);
            idn[i] = idn_store[i].c_str();
        }
    }
    SCPI_Init(ctx, table.data(), &iface, cfg.with_units ? (cfg.custom_units ? custom_unit_table() : scpi_units_def) : nullptr, idn[0], idn[1], idn[2], idn[3], inbuf, (size_t) cfg.inbuf,
              queue, (int16_t) cfg.queue);
    ctx->user_context = this;
#if SIM_HEAP
    if (cfg.no_heap == 0)
        SCPI_InitHeap(ctx, heap, (size_t) cfg.heap);
    else if (cfg.no_heap == 2)
        SCPI_InitHeap(ctx, heap, 0);   // a heap of length zero (a NULL pointer here would already be a NULL argument to memset)
#endif
}

bool World::input(const char *data, int len) {
    CallRec r;
    r.len = len;
    r.first_msg = (int) msgs.size();
    if (len > 0) {
        long fre = (long) ctx->buffer.length - (long) ctx->buffer.position;
        r.overrun = len > fre - 1;
    }
    calls.push_back(r);
    in_call = true;
    canon += fmt("I%d\n", len);
    char *tmp = nullptr;
    if (len > 0) {
        tmp = (char *) malloc((size_t) len);   // exact size: an over-read of the caller's data traps
        memcpy(tmp, data, (size_t) len);
    }
    bool ret = SCPI_Input(ctx, tmp, len);
    free(tmp);
    in_call = false;
    calls.back().ret = ret ? 1 : 0;
    canon += fmt("I=%d\n", ret ? 1 : 0);
    if (observer) observer(*this, "input-end");
    return ret;
}

bool World::parse_line(const std::string &line) {
    char *tmp = (char *) malloc(line.size() + 1);
    memcpy(tmp, line.data(), line.size());
    tmp[line.size()] = 0;
    canon += fmt("P%zu\n", line.size());
    bool ret = SCPI_Parse(ctx, tmp, (int) line.size());
    free(tmp);
    canon += fmt("P=%d\n", ret ? 1 : 0);
    if (observer) observer(*this, "parse-end");
    return ret;
}

UnitRec *World::unit() {
    if (cur_msg < 0 || cur_unit < 0) return nullptr;
    return &msgs[cur_msg].units[cur_unit];
}
MsgRec *World::msg() {
    if (cur_msg < 0) return nullptr;
    return &msgs[cur_msg];
}

void World::note(const std::string &s) {
    canon += s;
    canon += '\n';
    if (UnitRec *u = unit()) {
        u->notes += s;
        u->notes += '\n';
    }
}

void World::free_info(char *info) {
    if (!info) return;
#if SIM_HAS_INFO
#if SIM_HEAP
    scpiheap_free(&ctx->error_info_heap, info, false);
#else
    free(info);
#endif
#endif
}

void World::fw_push(int code, const char *text, size_t len) {
    canon += fmt("fw push %d %s %zu\n", code, text ? c_escape(std::string(text, (len && len < strlen(text)) ? len : strlen(text))).c_str() : "-", len);
    nontrivial = true;
    if (text) {
        // hand the library an exact-size NUL-terminated copy so that any over-read traps
        size_t n = strlen(text);
        char *tmp = (char *) malloc(n + 1);
        memcpy(tmp, text, n + 1);
        SCPI_ErrorPushEx(ctx, (int16_t) code, tmp, len);
        free(tmp);
    } else {
        SCPI_ErrorPush(ctx, (int16_t) code);
    }
    if (observer) observer(*this, "fw");
}

bool World::fw_pop(int &code, std::string &text, bool &has_text) {
    scpi_error_t e;
    memset(&e, 0xA5, sizeof e);
    bool r = SCPI_ErrorPop(ctx, &e);
    code = e.error_code;
    text.clear();
    has_text = false;
#if SIM_HAS_INFO
    if (e.device_dependent_info) {
        has_text = true;
#if SIM_HEAP
        size_t l1 = 0, l2 = 0;
        const char *s2 = nullptr;
        if (scpiheap_get_parts(&ctx->error_info_heap, e.device_dependent_info, &l1, &s2, &l2)) {
            text.assign(e.device_dependent_info, l1);
            if (s2) text.append(s2, l2);
        }
#else
        text = e.device_dependent_info;
#endif
        free_info(e.device_dependent_info);
    }
#endif
    canon += fmt("fw pop %d %s\n", code, has_text ? c_escape(text).c_str() : "-");
    if (observer) observer(*this, "fw");
    return r;
}

void World::fw_clear() {
    canon += "fw clear\n";
    SCPI_ErrorClear(ctx);
    if (observer) observer(*this, "fw");
}

int World::fw_count() {
    int n = SCPI_ErrorCount(ctx);
    canon += fmt("fw count %d\n", n);
    return n;
}

void World::fw_regset(int r, int val) {
    canon += fmt("fw regset %d %d\n", r, val);
    SCPI_RegSet(ctx, (scpi_reg_name_t) r, (scpi_reg_val_t) val);
    if (observer) observer(*this, "fw");
}

void World::fw_regbits(int r, int bits, bool set) {
    canon += fmt("fw reg%s %d %d\n", set ? "setbits" : "clrbits", r, bits);
    if (set)
        SCPI_RegSetBits(ctx, (scpi_reg_name_t) r, (scpi_reg_val_t) bits);
    else
        SCPI_RegClearBits(ctx, (scpi_reg_name_t) r, (scpi_reg_val_t) bits);
    if (observer) observer(*this, "fw");
}

// ------------------------------------------------------------------ generic parameter reader
static std::string bits64(double d) {
    uint64_t u;
    memcpy(&u, &d, 8);
    return fmt("%016llx", (unsigned long long) u);
}
static std::string bits32(float f) {
    uint32_t u;
    memcpy(&u, &f, 4);
    return fmt("%08x", u);
}

void read_all_params(World &w, UnitRec *u, bool convert) {
    scpi_parameter_t p;
    int guard = 0;
    while (guard++ < 10000 && SCPI_Parameter(w.ctx, &p, FALSE)) {
        ParamRec r;
        r.type = p.type;
        if (p.ptr && p.len > 0) r.bytes.assign(p.ptr, (size_t) p.len);
        if (convert && SCPI_ParamIsNumber(&p, TRUE)) {
            int32_t i32 = 0;
            uint32_t u32 = 0;
            int64_t i64 = 0;
            uint64_t u64 = 0;
            float f = 0;
            double d = 0;
            bool b1 = SCPI_ParamToInt32(w.ctx, &p, &i32);
            bool b2 = SCPI_ParamToUInt32(w.ctx, &p, &u32);
            bool b3 = SCPI_ParamToInt64(w.ctx, &p, &i64);
            bool b4 = SCPI_ParamToUInt64(w.ctx, &p, &u64);
            bool b5 = SCPI_ParamToFloat(w.ctx, &p, &f);
            bool b6 = SCPI_ParamToDouble(w.ctx, &p, &d);
            r.typed = fmt("%d:%d %d:%u %d:%lld %d:%llu %d:%s %d:%s", b1, b1 ? i32 : 0, b2, b2 ? u32 : 0u, b3, b3 ? (long long) i64 : 0ll, b4,
                          b4 ? (unsigned long long) u64 : 0ull, b5, b5 ? bits32(f).c_str() : "-", b6, b6 ? bits64(d).c_str() : "-");
        }
        w.canon += fmt("p %s \"%s\" %s\n", token_name(r.type), c_escape(r.bytes).c_str(), r.typed.c_str());
        if (u) u->params.push_back(std::move(r));
    }
}

// ------------------------------------------------------------------ allocator seam
extern "C" {
char *__real_strndup(const char *s, size_t n);
void __real_free(void *p);

char *__wrap_strndup(const char *s, size_t n) {
    g_alloc.allocs++;
    bool fail = g_alloc.fail_all || g_alloc.fail_countdown == 0;
    if (g_alloc.fail_countdown >= 0) g_alloc.fail_countdown--;
    g_alloc.last_failed = fail;
    if (fail) {
        g_alloc.failed++;
        return nullptr;
    }
    char *r = __real_strndup(s, n);
    if (r) g_alloc.live.insert(r);
    return r;
}

void __wrap_free(void *p) {
    if (p && !g_alloc.live.empty()) {
        auto it = g_alloc.live.find(p);
        if (it != g_alloc.live.end()) {
            g_alloc.live.erase(it);
            g_alloc.frees++;
        }
    }
    __real_free(p);
}
}
