// scpisim command line: work | gen | shrink | replay | merge | list
#include <signal.h>
#include <sys/mman.h>
#include <sys/wait.h>
#include <time.h>
#include <unistd.h>

#include <algorithm>
#include <clocale>
#include <fstream>
#include <sstream>

#include "core.h"

extern "C" {
// Non-inline and used, so the sanitizer runtime finds it (see brief: `extern "C" inline` is never emitted).
__attribute__((used, visibility("default"))) const char *__asan_default_options() {
    return "exitcode=77:quarantine_size_mb=16:detect_leaks=0:abort_on_error=0:symbolize=0:allocator_may_return_null=1:detect_stack_use_after_return=0:"
           "external_symbolizer_path=/usr/bin/llvm-symbolizer-14";
}
__attribute__((used, visibility("default"))) const char *__ubsan_default_options() {
    return "print_stacktrace=0:halt_on_error=1:exitcode=77";
}
int __lsan_do_recoverable_leak_check(void);
}
uint32_t cov_total();
void cov_to_sets();

static double wall_now() {
    // wall clock is used only for throughput reporting and the batch time cap, never inside a run
    struct timespec ts;
    clock_gettime(CLOCK_MONOTONIC, &ts);
    return ts.tv_sec + ts.tv_nsec * 1e-9;
}

static std::string jesc(const std::string &s) {
    std::string o;
    char buf[8];
    for (unsigned char c : s) {
        switch (c) {
            case '"': o += "\\\""; break;
            case '\\': o += "\\\\"; break;
            case '\n': o += "\\n"; break;
            case '\r': o += "\\r"; break;
            case '\t': o += "\\t"; break;
            default:
                if (c < 0x20 || c >= 0x7f) {
                    snprintf(buf, sizeof buf, "\\u%04x", c);
                    o += buf;
                } else {
                    o += (char) c;
                }
        }
    }
    return o;
}

struct Args {
    std::vector<std::string> pos;
    std::map<std::string, std::string> opt;
    std::string get(const std::string &k, const std::string &d = "") const {
        auto it = opt.find(k);
        return it == opt.end() ? d : it->second;
    }
    long geti(const std::string &k, long d) const {
        auto it = opt.find(k);
        return it == opt.end() ? d : strtol(it->second.c_str(), nullptr, 10);
    }
    unsigned long long getu(const std::string &k, unsigned long long d) const {
        auto it = opt.find(k);
        return it == opt.end() ? d : strtoull(it->second.c_str(), nullptr, 10);
    }
};

static Args parse_args(int argc, char **argv) {
    Args a;
    for (int i = 2; i < argc; i++) {
        std::string s = argv[i];
        if (s.rfind("--", 0) == 0) {
            std::string k = s.substr(2);
            std::string v = "1";
            size_t eq = k.find('=');
            if (eq != std::string::npos) {
                v = k.substr(eq + 1);
                k = k.substr(0, eq);
            } else if (i + 1 < argc && strncmp(argv[i + 1], "--", 2) != 0) {
                v = argv[++i];
            }
            a.opt[k] = v;
        } else {
            a.pos.push_back(s);
        }
    }
    return a;
}

static GenOpts gen_opts(const Args &a) {
    GenOpts g;
    g.tier = a.get("tier", "quick");
    g.config = build_config();
    std::string av = a.get("avoid", "");
    std::stringstream ss(av);
    std::string t;
    while (std::getline(ss, t, ','))
        if (!t.empty()) g.avoid.push_back(t);
    return g;
}

static uint64_t run_seed(uint64_t base, const std::string &prop, uint64_t index) {
    return mix64(mix64(base ^ fnv1a(prop)) + index * 0x9e3779b97f4a7c15ULL);
}

static void make_plan(const Property *prop, const GenOpts &g, uint64_t base_seed, long index, Plan &p) {
    p = Plan();
    p.prop = prop->id;
    p.config = build_config();
    p.seed = run_seed(base_seed, prop->id, (uint64_t) index);
    p.index = index;
    Rng rng(p.seed);
    prop->generate(rng, g, p);
}

struct Shared {
    volatile long cur;
    volatile long done;     // runs completed by all generations of the child
    volatile long nfail;
};

static void print_counters_and_reset(const char *tag, long worker, uint64_t runs, uint64_t nontriv, uint64_t sim_ms, double wall) {
    printf("{\"%s\":%ld,\"runs\":%llu,\"nontrivial\":%llu,\"sim_ms\":%llu,\"wall\":%.3f,\"counters\":{", tag, worker, (unsigned long long) runs,
           (unsigned long long) nontriv, (unsigned long long) sim_ms, wall);
    bool first = true;
    for (auto &kv : g_counters.c) {
        printf("%s\"%s\":%llu", first ? "" : ",", jesc(kv.first).c_str(), (unsigned long long) kv.second);
        first = false;
    }
    printf("}}\n");
    fflush(stdout);
    g_counters.c.clear();
}

static void dump_sets(const std::string &outdir, long worker, int gen) {
    if (outdir.empty()) return;
    for (auto &kv : g_sets.sets) {
        std::string path = outdir + "/w" + std::to_string(worker) + "." + std::to_string(gen) + "." + kv.first + ".bin";
        FILE *f = fopen(path.c_str(), "wb");
        if (!f) continue;
        std::vector<uint64_t> v(kv.second.begin(), kv.second.end());
        if (!v.empty()) fwrite(v.data(), 8, v.size(), f);
        fclose(f);
    }
}

static int child_loop(const Property *prop, const Args &a, Shared *sh, long start, int gen) {
    GenOpts g = gen_opts(a);
    uint64_t base = a.getu("seed", 1);
    long worker = a.geti("worker", 0), nworkers = a.geti("nworkers", 1), runs = a.geti("runs", 1000);
    long maxfail = a.geti("maxfail", 5);
    double cap = (double) a.geti("time-cap", 0);
    std::string outdir = a.get("outdir", "");
    std::string hashlog = a.get("hashlog", "");
    long recheck = a.geti("recheck", 101);
    FILE *hl = nullptr;
    if (!hashlog.empty()) hl = fopen((hashlog + "." + std::to_string(worker)).c_str(), gen == 0 ? "w" : "a");
    double t0 = wall_now();
    uint64_t nruns = 0, nontriv = 0, sim_ms = 0;
    long samples = (worker == 0 && gen == 0) ? a.geti("samples", 3) : 0;
    bool capped = false;
    for (long i = start; i < runs; i += nworkers) {
        sh->cur = i;
        Plan p;
        make_plan(prop, g, base, i, p);
        Verdict v;
        alarm(20);
        prop->execute(p, v);
        alarm(0);
        nruns++;
        sh->done++;
        sim_ms += v.sim_ms;
        if (v.nontrivial) {
            nontriv++;
            g_sets.add("trace", v.trace_hash);
        }
        if (hl) fprintf(hl, "%ld %016llx\n", i, (unsigned long long) v.trace_hash);
        if (samples > 0 && v.nontrivial) {
            samples--;
            printf("{\"sample\":\"%s\"}\n", jesc(plan_to_text(p)).c_str());
        }
        if (v.violated) {
            printf("{\"fail\":%ld,\"rule\":\"%s\",\"sig\":\"%s\",\"detail\":\"%s\"}\n", i, jesc(v.rule).c_str(), jesc(v.sig).c_str(),
                   jesc(v.detail.substr(0, 600)).c_str());
            fflush(stdout);
            sh->nfail++;
            if (sh->nfail >= maxfail) break;
        } else if (recheck > 0 && (i / nworkers) % recheck == 0) {
            // determinism self-check: the same plan must give the same trace hash
            Verdict v2;
            bool save = g_collect;
            g_collect = false;
            prop->execute(p, v2);
            g_collect = save;
            if (v2.trace_hash != v.trace_hash || v2.violated != v.violated) {
                printf("{\"nondet\":%ld}\n", i);
                fflush(stdout);
            }
            g_counters.add("selfcheck_reexecutions");
        }
        if ((nruns & 0x3ff) == 0 && cap > 0 && wall_now() - t0 > cap) {
            capped = true;
            break;
        }
    }
    if (hl) fclose(hl);
    if (capped) g_counters.add("time_cap_hit");
    g_counters.c["edges_total"] = cov_total();
    print_counters_and_reset("stats", worker, nruns, nontriv, sim_ms, wall_now() - t0);
    cov_to_sets();
    dump_sets(outdir, worker, gen);
    return 0;
}

static int cmd_work(const Args &a) {
    if (a.pos.empty()) return 2;
    const Property *prop = find_property(a.pos[0]);
    if (!prop) {
        fprintf(stderr, "unknown property %s\n", a.pos[0].c_str());
        return 2;
    }
    long worker = a.geti("worker", 0), nworkers = a.geti("nworkers", 1), runs = a.geti("runs", 1000);
    long maxfail = a.geti("maxfail", 5);
    Shared *sh = (Shared *) mmap(nullptr, sizeof(Shared), PROT_READ | PROT_WRITE, MAP_SHARED | MAP_ANONYMOUS, -1, 0);
    sh->cur = -1;
    sh->done = 0;
    sh->nfail = 0;
    long start = worker;
    int gen = 0;
    while (start < runs && sh->nfail < maxfail) {
        fflush(stdout);
        pid_t pid = fork();
        if (pid == 0) _exit(child_loop(prop, a, sh, start, gen));
        int st = 0;
        waitpid(pid, &st, 0);
        if (WIFEXITED(st) && WEXITSTATUS(st) == 0) break;
        // the child died inside run sh->cur: sanitizer abort (77), signal, watchdog (SIGALRM)
        std::string rule;
        if (WIFEXITED(st) && WEXITSTATUS(st) == 77)
            rule = "san";
        else if (WIFSIGNALED(st) && WTERMSIG(st) == SIGALRM)
            rule = "hang";
        else if (WIFSIGNALED(st))
            rule = "signal:" + std::to_string(WTERMSIG(st));
        else
            rule = "exit:" + std::to_string(WIFEXITED(st) ? WEXITSTATUS(st) : -1);
        printf("{\"fail\":%ld,\"rule\":\"%s\",\"sig\":\"crash\",\"detail\":\"worker died in this run\",\"crash\":true}\n", (long) sh->cur,
               rule.c_str());
        printf("{\"lost_stats\":%ld}\n", worker);
        fflush(stdout);
        sh->nfail++;
        start = sh->cur + nworkers;
        gen++;
    }
    printf("{\"done\":%ld,\"completed\":%ld,\"nfail\":%ld}\n", worker, (long) sh->done, (long) sh->nfail);
    fflush(stdout);
    return 0;
}

static int cmd_gen(const Args &a) {
    if (a.pos.empty()) return 2;
    const Property *prop = find_property(a.pos[0]);
    if (!prop) return 2;
    Plan p;
    make_plan(prop, gen_opts(a), a.getu("seed", 1), a.geti("index", 0), p);
    fputs(plan_to_text(p).c_str(), stdout);
    return 0;
}

static int cmd_replay(const Args &a) {
    if (a.pos.empty()) return 2;
    Plan p;
    std::string err;
    if (!plan_load(a.pos[0], p, err)) {
        fprintf(stderr, "replay: %s\n", err.c_str());
        return 2;
    }
    const Property *prop = find_property(p.prop);
    if (!prop) {
        fprintf(stderr, "replay: unknown property %s\n", p.prop.c_str());
        return 2;
    }
    if (p.config != build_config()) {
        fprintf(stderr, "replay: plan is for config %s, this binary is %s\n", p.config.c_str(), build_config());
        return 2;
    }
    g_collect = false;
    Verdict v;
    alarm(30);
    prop->execute(p, v);   // in-process: a sanitizer report aborts with exit code 77, which is the reproduction
    alarm(0);
    printf("RESULT property=%s violated=%d rule=%s hash=%016llx\n", p.prop.c_str(), v.violated ? 1 : 0, v.violated ? v.rule.c_str() : "-",
           (unsigned long long) v.trace_hash);
    if (v.violated) {
        printf("SIG %s\n", v.sig.c_str());
        printf("DETAIL %s\n", v.detail.c_str());
        printf("VIOLATION property=%s replay=%s\n", p.prop.c_str(), a.pos[0].c_str());
        return 1;
    }
    return 0;
}

// shrink: regenerate (or load) the failing plan, confirm it twice, minimise, write the replay file
static int cmd_shrink(const Args &a) {
    Plan p;
    std::string err;
    const Property *prop = nullptr;
    if (!a.get("plan").empty()) {
        if (!plan_load(a.get("plan"), p, err)) {
            fprintf(stderr, "shrink: %s\n", err.c_str());
            return 2;
        }
        prop = find_property(p.prop);
    } else {
        if (a.pos.empty()) return 2;
        prop = find_property(a.pos[0]);
        if (prop) make_plan(prop, gen_opts(a), a.getu("seed", 1), a.geti("index", 0), p);
    }
    if (!prop) return 2;
    EvalResult r1 = eval_forked(prop, p), r2 = eval_forked(prop, p);
    if (!r1.ok || !r2.ok) {
        printf("{\"shrink\":\"eval-failed\"}\n");
        return 2;
    }
    if (r1.rule.empty()) {
        printf("{\"shrink\":\"not-reproduced\"}\n");
        return 3;
    }
    if (r1.rule != r2.rule || r1.hash != r2.hash) {
        printf("{\"shrink\":\"nondeterministic\",\"rule1\":\"%s\",\"rule2\":\"%s\"}\n", jesc(r1.rule).c_str(), jesc(r2.rule).c_str());
        return 2;
    }
    ShrinkStats st;
    Plan m = shrink_plan(prop, p, r1.rule, st, (int) a.geti("max-evals", 3000));
    EvalResult rf = eval_forked(prop, m);
    if (!rf.ok || rf.rule != r1.rule) {
        printf("{\"shrink\":\"minimised-plan-does-not-reproduce\"}\n");
        return 2;
    }
    std::string out = a.get("out", "");
    if (!out.empty() && !plan_save(out, m)) {
        fprintf(stderr, "shrink: cannot write %s\n", out.c_str());
        return 2;
    }
    printf("{\"shrink\":\"ok\",\"rule\":\"%s\",\"sig\":\"%s\",\"detail\":\"%s\",\"hash\":\"%016llx\",\"evals\":%d,\"ops_before\":%zu,\"ops_after\":%zu}\n",
           jesc(rf.rule).c_str(), jesc(rf.sig).c_str(), jesc(rf.detail.substr(0, 1500)).c_str(), (unsigned long long) rf.hash, st.evals,
           st.ops_before, st.ops_after);
    return 0;
}

static int cmd_merge(const Args &a) {
    // merge <file>...: count distinct 64-bit values over all files
    std::vector<uint64_t> all;
    for (auto &f : a.pos) {
        FILE *fp = fopen(f.c_str(), "rb");
        if (!fp) continue;
        uint64_t buf[4096];
        size_t n;
        while ((n = fread(buf, 8, 4096, fp)) > 0) all.insert(all.end(), buf, buf + n);
        fclose(fp);
    }
    std::sort(all.begin(), all.end());
    all.erase(std::unique(all.begin(), all.end()), all.end());
    printf("%zu\n", all.size());
    return 0;
}

static int cmd_list() {
    for (auto p : all_properties()) {
        printf("%s", p->id);
        for (auto &c : p->configs) printf(" %s", c.c_str());
        printf("\n");
    }
    return 0;
}

static int cmd_info(const Args &a) {
    if (a.pos.empty()) return 2;
    const Property *p = find_property(a.pos[0]);
    if (!p) return 2;
    printf("{\"id\":\"%s\",\"title\":\"%s\",\"rule\":\"%s\",\"configs\":[", p->id, jesc(p->title).c_str(), jesc(p->rule_text).c_str());
    for (size_t i = 0; i < p->configs.size(); i++) printf("%s\"%s\"", i ? "," : "", p->configs[i].c_str());
    printf("],\"probes\":[");
    for (size_t i = 0; i < p->probes.size(); i++) printf("%s\"%s\"", i ? "," : "", jesc(p->probes[i]).c_str());
    printf("]}\n");
    return 0;
}

int main(int argc, char **argv) {
    setlocale(LC_ALL, "C");   // isalpha/strtod/tolower are part of the code under test
    if (argc < 2) {
        fprintf(stderr, "usage: scpisim work|gen|shrink|replay|merge|list|info ...\n");
        return 2;
    }
    std::string cmd = argv[1];
    Args a = parse_args(argc, argv);
    if (cmd == "work") return cmd_work(a);
    if (cmd == "gen") return cmd_gen(a);
    if (cmd == "replay") return cmd_replay(a);
    if (cmd == "shrink") return cmd_shrink(a);
    if (cmd == "merge") return cmd_merge(a);
    if (cmd == "list") return cmd_list();
    if (cmd == "info") return cmd_info(a);
    if (cmd == "config") {
        printf("%s\n", build_config());
        return 0;
    }
    fprintf(stderr, "unknown command %s\n", cmd.c_str());
    return 2;
}
