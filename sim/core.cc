#include "core.h"

#include <fstream>
#include <sstream>

Counters g_counters;
HashSets g_sets;
bool g_collect = true;

std::string c_escape(const std::string &s) {
    std::string o;
    char buf[8];
    for (unsigned char c : s) {
        switch (c) {
            case '\\': o += "\\\\"; break;
            case '"': o += "\\\""; break;
            case '\n': o += "\\n"; break;
            case '\r': o += "\\r"; break;
            case '\t': o += "\\t"; break;
            default:
                if (c < 0x20 || c >= 0x7f) {
                    snprintf(buf, sizeof buf, "\\x%02x", c);
                    o += buf;
                } else {
                    o += (char) c;
                }
        }
    }
    return o;
}

static int hexv(char c) {
    if (c >= '0' && c <= '9') return c - '0';
    if (c >= 'a' && c <= 'f') return c - 'a' + 10;
    if (c >= 'A' && c <= 'F') return c - 'A' + 10;
    return -1;
}

bool c_unescape(const std::string &s, std::string &out) {
    out.clear();
    for (size_t i = 0; i < s.size(); i++) {
        char c = s[i];
        if (c != '\\') {
            out += c;
            continue;
        }
        if (++i >= s.size()) return false;
        switch (s[i]) {
            case '\\': out += '\\'; break;
            case '"': out += '"'; break;
            case 'n': out += '\n'; break;
            case 'r': out += '\r'; break;
            case 't': out += '\t'; break;
            case 'x': {
                int h = (i + 1 < s.size()) ? hexv(s[i + 1]) : -1;
                int l = (i + 2 < s.size()) ? hexv(s[i + 2]) : -1;
                if (h < 0 || l < 0) return false;
                out += (char) (h * 16 + l);
                i += 2;
                break;
            }
            default: return false;
        }
    }
    return true;
}

std::string plan_to_text(const Plan &p) {
    std::ostringstream o;
    o << "scpisim-plan 1\n";
    o << "prop " << p.prop << "\n";
    o << "config " << p.config << "\n";
    o << "seed " << p.seed << "\n";
    o << "index " << p.index << "\n";
    for (auto &kv : p.knob) o << "knob " << kv.first << " " << kv.second << "\n";
    for (auto &op : p.ops) {
        o << "op " << op.kind;
        for (long a : op.a) o << " " << a;
        if (op.has_s) o << " | \"" << c_escape(op.s) << "\"";
        o << "\n";
    }
    o << "end\n";
    return o.str();
}

bool plan_from_text(const std::string &text, Plan &p, std::string &err) {
    p = Plan();
    std::istringstream in(text);
    std::string line;
    bool header = false, ended = false;
    int ln = 0;
    while (std::getline(in, line)) {
        ln++;
        if (line.empty() || line[0] == '#') continue;
        std::istringstream ls(line);
        std::string w;
        ls >> w;
        if (w == "scpisim-plan") {
            header = true;
        } else if (w == "prop") {
            ls >> p.prop;
        } else if (w == "config") {
            ls >> p.config;
        } else if (w == "seed") {
            ls >> p.seed;
        } else if (w == "index") {
            ls >> p.index;
        } else if (w == "knob") {
            std::string k;
            long v = 0;
            ls >> k >> v;
            p.knob[k] = v;
        } else if (w == "op") {
            Op op;
            ls >> op.kind;
            size_t bar = line.find(" | \"");
            std::string argpart = line.substr(0, bar == std::string::npos ? line.size() : bar);
            std::istringstream as(argpart);
            std::string dummy;
            as >> dummy >> dummy;
            long v;
            while (as >> v) op.a.push_back(v);
            if (bar != std::string::npos) {
                size_t st = bar + 4;
                size_t en = line.rfind('"');
                if (en == std::string::npos || en < st) {
                    err = "line " + std::to_string(ln) + ": unterminated string";
                    return false;
                }
                if (!c_unescape(line.substr(st, en - st), op.s)) {
                    err = "line " + std::to_string(ln) + ": bad escape";
                    return false;
                }
                op.has_s = true;
            }
            p.ops.push_back(op);
        } else if (w == "end") {
            ended = true;
        } else {
            err = "line " + std::to_string(ln) + ": unknown directive " + w;
            return false;
        }
    }
    if (!header || !ended) {
        err = "not a complete scpisim plan";
        return false;
    }
    return true;
}

bool plan_load(const std::string &path, Plan &p, std::string &err) {
    std::ifstream f(path, std::ios::binary);
    if (!f) {
        err = "cannot open " + path;
        return false;
    }
    std::stringstream ss;
    ss << f.rdbuf();
    return plan_from_text(ss.str(), p, err);
}

bool plan_save(const std::string &path, const Plan &p) {
    std::ofstream f(path, std::ios::binary | std::ios::trunc);
    if (!f) return false;
    f << plan_to_text(p);
    return (bool) f;
}

static std::vector<const Property *> &registry() {
    static std::vector<const Property *> r;
    return r;
}
void register_property(const Property *p) { registry().push_back(p); }
const std::vector<const Property *> &all_properties() { return registry(); }
const Property *find_property(const std::string &id) {
    for (auto p : registry())
        if (id == p->id) return p;
    return nullptr;
}

const char *build_config() {
#if defined(SIM_CONFIG_HEAP)
    return "heap";
#elif defined(SIM_CONFIG_NOINFO) && defined(SIM_CONFIG_USER)
    return "noinfouser";
#elif defined(SIM_CONFIG_NOINFO)
    return "noinfo";
#elif defined(SIM_CONFIG_DTOSTRE)
    return "dtostre";
#elif defined(SIM_CONFIG_USER)
    return "user";
#else
    return "malloc";
#endif
}
