/* Build configuration "user": the library's documented extension points switched on, the way an application that has
 * its own status registers and its own error codes builds it (-DSCPI_USER_CONFIG=1 -I<this directory>).
 *  - USE_CUSTOM_REGISTERS: two additional register groups
 *      VOLT: event/enable/condition with PTRansition and NTRansition filters, summarised into bit 0 of the
 *            QUEStionable condition register (the SCPI-99 QUEStionable:VOLTage fan-out)
 *      INST, ISUM, CHAN, AUX: four levels without filters stacked on each other
 *            (AUX -> CHAN condition bit 3 -> ISUM condition bit 2 -> INST condition bit 1 -> QUEStionable condition bit 13)
 *  - SCPI_LINE_ENDING is a run-time value (a pointer the application sets), not a string literal
 *  - USE_USER_ERROR_LIST: six application error codes whose descriptions contain what a device-dependent text may
 *      contain too: double quotes, a semicolon, nothing at all, more than 60 characters */
#ifndef SCPI_USER_CONFIG_H
#define SCPI_USER_CONFIG_H

#define USE_CUSTOM_REGISTERS 1

#define USER_REGISTERS \
    USER_REG_VOLT, USER_REG_VOLTE, USER_REG_VOLTC, USER_REG_VOLTP, USER_REG_VOLTN, \
    USER_REG_AUX, USER_REG_AUXE, USER_REG_AUXC, \
    USER_REG_INST, USER_REG_INSTE, USER_REG_INSTC, \
    USER_REG_ISUM, USER_REG_ISUME, USER_REG_ISUMC, \
    USER_REG_CHAN, USER_REG_CHANE, USER_REG_CHANC,

#define USER_REGISTER_GROUPS \
    USER_REG_GROUP_VOLT, USER_REG_GROUP_AUX, USER_REG_GROUP_INST, USER_REG_GROUP_ISUM, USER_REG_GROUP_CHAN,

#define USER_REGISTER_DETAILS \
    { SCPI_REG_CLASS_EVEN, USER_REG_GROUP_VOLT }, \
    { SCPI_REG_CLASS_ENAB, USER_REG_GROUP_VOLT }, \
    { SCPI_REG_CLASS_COND, USER_REG_GROUP_VOLT }, \
    { SCPI_REG_CLASS_PTR,  USER_REG_GROUP_VOLT }, \
    { SCPI_REG_CLASS_NTR,  USER_REG_GROUP_VOLT }, \
    { SCPI_REG_CLASS_EVEN, USER_REG_GROUP_AUX }, \
    { SCPI_REG_CLASS_ENAB, USER_REG_GROUP_AUX }, \
    { SCPI_REG_CLASS_COND, USER_REG_GROUP_AUX }, \
    { SCPI_REG_CLASS_EVEN, USER_REG_GROUP_INST }, \
    { SCPI_REG_CLASS_ENAB, USER_REG_GROUP_INST }, \
    { SCPI_REG_CLASS_COND, USER_REG_GROUP_INST }, \
    { SCPI_REG_CLASS_EVEN, USER_REG_GROUP_ISUM }, \
    { SCPI_REG_CLASS_ENAB, USER_REG_GROUP_ISUM }, \
    { SCPI_REG_CLASS_COND, USER_REG_GROUP_ISUM }, \
    { SCPI_REG_CLASS_EVEN, USER_REG_GROUP_CHAN }, \
    { SCPI_REG_CLASS_ENAB, USER_REG_GROUP_CHAN }, \
    { SCPI_REG_CLASS_COND, USER_REG_GROUP_CHAN },

/* the SCPI-99 QUEStionable:INSTrument:ISUMmary fan-out and two more levels below it (per-channel and per-channel auxiliary
 * status): AUX -> CHAN condition bit 3 -> ISUM condition bit 2 -> INST condition bit 1 -> QUES condition bit 13 -> STB */
#define USER_REGISTER_GROUP_DETAILS \
    { USER_REG_VOLT, USER_REG_VOLTE, USER_REG_VOLTC, USER_REG_VOLTP, USER_REG_VOLTN, SCPI_REG_QUESC, 0x0001 }, \
    { USER_REG_AUX, USER_REG_AUXE, USER_REG_AUXC, SCPI_REG_NONE, SCPI_REG_NONE, USER_REG_CHANC, 0x0008 }, \
    { USER_REG_INST, USER_REG_INSTE, USER_REG_INSTC, SCPI_REG_NONE, SCPI_REG_NONE, SCPI_REG_QUESC, 0x2000 }, \
    { USER_REG_ISUM, USER_REG_ISUME, USER_REG_ISUMC, SCPI_REG_NONE, SCPI_REG_NONE, USER_REG_INSTC, 0x0002 }, \
    { USER_REG_CHAN, USER_REG_CHANE, USER_REG_CHANC, SCPI_REG_NONE, SCPI_REG_NONE, USER_REG_ISUMC, 0x0004 },

/* the response terminator is chosen when the instrument starts (a front-panel setting), not when it is compiled */
#ifdef __cplusplus
extern "C" {
#endif
extern const char * scpisim_line_ending;
#ifdef __cplusplus
}
#endif
#define SCPI_LINE_ENDING scpisim_line_ending

#define USE_USER_ERROR_LIST 1

#define LIST_OF_USER_ERRORS \
    X(SCPI_ERROR_USER_CAL_FAILED,      100, "Calibration \"CAL:ALL\" failed") \
    X(SCPI_ERROR_USER_QUOTE_ONLY,      101, "\"") \
    X(SCPI_ERROR_USER_EMPTY,           102, "") \
    X(SCPI_ERROR_USER_SEMICOLON,       103, "Interlock open;close the lid") \
    X(SCPI_ERROR_USER_LONG,            104, "Output stage of channel group B reports a thermal overload, outputs were switched off") \
    X(SCPI_ERROR_USER_TRAILING_QUOTE,  -1999, "Unit said \"no\"")

#endif
