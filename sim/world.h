// The simulated world around one real scpi_t: exact-size buffers, output sink,
// error/SRQ observers, scripted command handlers, allocator fault injection,
// message/unit boundary bookkeeping (hook H2) and a discrete-event clock.
#pragma once
#include <deque>
#include <functional>
#include <queue>
#include <string>
#include <vector>

#include "core.h"

extern "C" {
#include "scpi/scpi.h"
#include "utils_private.h"
#include "lexer_private.h"
#include "fifo_private.h"
}
#undef min
#undef max
#include <algorithm>
static inline long clampl(long v, long lo, long hi) { return v < lo ? lo : (v > hi ? hi : v); }

#if defined(SIM_CONFIG_HEAP)
#define SIM_HAS_INFO 1
#define SIM_HEAP 1
#elif defined(SIM_CONFIG_NOINFO)
#define SIM_HAS_INFO 0
#define SIM_HEAP 0
#else
#define SIM_HAS_INFO 1
#define SIM_HEAP 0
#endif

struct World;

struct ParamRec {
    int type = -1;
    std::string bytes;    // written extent as delivered
    std::string typed;    // canonical text of every typed conversion
};

struct ErrRec {
    int code;
    int msg;        // message ordinal or -1 (outside SCPI_Parse)
    int unit;       // unit ordinal within msg or -1
    bool in_handler;
};

struct UnitRec {
    int msg = -1;
    std::string text;         // raw unit text as detected (may have been rewritten by header composition afterwards)
    int hdr_type = -1;
    int invocations = 0;
    int tag = -1;
    std::string cmd_raw;      // effective header seen by the handler
    std::vector<ParamRec> params;
    std::vector<int> errs;    // codes raised through the error callback while this unit was current
    std::string out;          // bytes requested to be written while this unit was current
    int hres = 0;             // handler return value (SCPI_RES_OK=1 / SCPI_RES_ERR=-1), 0 if no handler ran
    std::string notes;        // handler-script observations
};

struct MsgRec {
    int call = -1;            // input-call ordinal that executed it (-1: direct SCPI_Parse)
    std::string text;
    std::vector<UnitRec> units;
    int result = -1;          // SCPI_Parse result
    std::string out;          // all bytes written between begin and end
    int flushes = 0;
    std::vector<int> errs;    // all codes raised between begin and end
    bool ended = false;
};

struct CallRec {
    int len = 0;
    int ret = -1;
    int first_msg = 0, n_msgs = 0;
    std::vector<int> errs;    // every code raised during the call
    bool overrun = false;     // harness-side: len > free-1 at call time
};

// the response terminator of this build: a literal in four configurations, a run-time pointer in configuration `user`
// (set_line_ending chooses among CRLF, LF, CR there and is a no-op elsewhere)
void set_line_ending(int which);
inline std::string line_ending() { return std::string(SCPI_LINE_ENDING); }

struct WorldCfg {
    int inbuf = 256;
    int queue = 4;
    int heap = 64;
    int no_heap = 0;   // static-heap build only: 1 = SCPI_InitHeap never called, 2 = SCPI_InitHeap with length 0: every error is queued without text
    int wr_mode = 0;       // 0 full, 1 short (half), 2 zero, 3 (size_t)-1
    int flush_err = 0;     // flush returns SCPI_RES_ERR
    // identification strings given to SCPI_Init: lengths of the four fields; -1 = the default of this harness
    // ("VERIF","SIM",NULL,"01-02"), -2 = NULL field
    int idn_len[4] = {-1, -1, -1, -1};
    bool with_units = true;
    bool custom_units = false;   // the application's own unit table: the standard entries plus entries spelled in mixed case ("mVpp")
    bool with_control = true;
    bool with_error_cb = true;
    bool with_flush = true;
    bool with_reset = true;
    bool control_err = false;   // the control (SRQ) callback reports failure
};

using Handler = std::function<scpi_result_t(World &)>;

struct World {
    WorldCfg cfg;
    scpi_t *ctx = nullptr;
    char *inbuf = nullptr;
    scpi_error_t *queue = nullptr;
    char *heap = nullptr;
    scpi_interface_t iface;

    // command table
    std::deque<std::string> patterns;
    std::vector<scpi_command_t> table;
    std::string idn_store[4];
    std::vector<scpi_command_t> alt_table;   // a second command set the application can point the context at (command-language switch)
    bool filling_alt = false;                // add_command & co. fill alt_table while set
    void use_alt_table(bool alt) { ctx->cmdlist = alt ? alt_table.data() : table.data(); }
    void use_units(int which);   // 0: the table the context was initialised with, 1: the application's own table, 2: none
    std::vector<Handler> handlers;
    bool table_sealed = false;

    // observations
    std::string out;                 // every byte requested through write()
    bool count_only = false;         // giant transfers: count the bytes instead of storing them (first 32 bytes are still stored)
    uint64_t counted = 0;
    int flushes = 0;
    std::vector<ErrRec> errs;        // error callback log
    std::vector<int> srq_vals;       // control(SRQ, v) values
    std::vector<MsgRec> msgs;
    std::vector<CallRec> calls;
    std::string canon;               // canonical flat trace (text)
    int cur_msg = -1, cur_unit = -1;
    bool in_parse = false, in_handler = false, in_call = false;
    uint64_t handler_calls = 0;
    uint64_t now_ms = 0;
    bool nontrivial = false;

    // observers
    std::function<void(World &, const char *where)> observer;       // after each handler, at unit/message boundaries
    std::function<void(World &, int val)> srq_observer;             // inside control(SRQ)
    std::function<void(World &, int code)> err_observer;            // inside error callback
    std::function<void(World &)> write_hook;                        // inside the write callback, before the bytes are taken (firmware doing other work in its transmit path)

    explicit World(const WorldCfg &c);
    ~World();
    World(const World &) = delete;
    World &operator=(const World &) = delete;

    int add_command(const std::string &pattern, Handler h);         // returns tag
    int add_lib_command(const std::string &pattern, scpi_command_callback_t cb);
    int add_null_command(const std::string &pattern);               // table entry with a NULL callback (a defined no-action header)
    void add_standard_commands();                                   // IEEE 488.2 + required SCPI, library handlers
    void seal();                                                    // terminate table and SCPI_Init

    // controller side
    bool input(const char *data, int len);                          // SCPI_Input with bookkeeping
    bool input(const std::string &s) { return input(s.data(), (int) s.size()); }
    bool flush_input() { return input(nullptr, 0); }
    bool parse_line(const std::string &line);                       // SCPI_Parse on an exact-size NUL-terminated copy
    std::string pending() const { return std::string(ctx->buffer.data, ctx->buffer.position); }

    // firmware side helpers (every call is logged to canon)
    void fw_push(int code, const char *text, size_t len);
    bool fw_pop(int &code, std::string &text, bool &has_text);
    void fw_clear();
    int fw_count();
    void fw_regset(int reg, int val);
    void fw_regbits(int reg, int bits, bool set);
    int reg(int r) { return SCPI_RegGet(ctx, (scpi_reg_name_t) r); }
    void free_info(char *info);

    UnitRec *unit();
    MsgRec *msg();
    void note(const std::string &s);   // append to canon (and to current unit notes)
    uint64_t hash() const { return fnv1a(canon); }
};

// canonical text of a parameter: type, bytes and every typed conversion
void read_all_params(World &w, UnitRec *u, bool convert);

// ------------------------------------------------------------- allocator seam
struct AllocCtl {
    long fail_countdown = -1;   // fail the allocation when this reaches 0 (counted in info allocations)
    bool fail_all = false;
    uint64_t allocs = 0, failed = 0, frees = 0;
    std::unordered_set<void *> live;   // info blocks handed to the library and not yet freed
    bool last_failed = false;
};
extern AllocCtl g_alloc;

// ------------------------------------------------------------- discrete-event clock
struct SimEvent {
    uint64_t at;
    uint64_t seq;
    int id;        // executor-defined
    long a, b;
};
struct SimEventCmp {
    bool operator()(const SimEvent &x, const SimEvent &y) const {
        return x.at != y.at ? x.at > y.at : x.seq > y.seq;
    }
};
struct Sim {
    uint64_t now = 0, seq = 0;
    std::priority_queue<SimEvent, std::vector<SimEvent>, SimEventCmp> q;
    void at(uint64_t t, int id, long a = 0, long b = 0) { q.push(SimEvent{t, ++seq, id, a, b}); }
    void after(uint64_t d, int id, long a = 0, long b = 0) { at(now + d, id, a, b); }
    bool next(SimEvent &e) {
        if (q.empty()) return false;
        e = q.top();
        q.pop();
        now = e.at;   // jump the clock to the next event
        return true;
    }
};

std::string hexs(const std::string &s);
std::string fmt(const char *f, ...) __attribute__((format(printf, 1, 2)));
const char *token_name(int t);
