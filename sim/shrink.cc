// Forked plan evaluation and plan minimisation (ddmin over ops, then per-op
// simplification). A candidate is kept only if the same rule fires again.
#include <fcntl.h>
#include <signal.h>
#include <sys/mman.h>
#include <sys/wait.h>
#include <unistd.h>

#include <algorithm>
#include <functional>

#include "core.h"

static std::string read_all_fd(int fd) {
    std::string s;
    char buf[4096];
    ssize_t n;
    while ((n = read(fd, buf, sizeof buf)) > 0) s.append(buf, (size_t) n);
    return s;
}

static std::string classify_sanitizer(const std::string &err) {
    // "ERROR: AddressSanitizer: heap-buffer-overflow on address ..." / "runtime error: ..." / LeakSanitizer
    size_t p = err.find("ERROR: AddressSanitizer: ");
    if (p != std::string::npos) {
        p += strlen("ERROR: AddressSanitizer: ");
        size_t e = err.find('\n', p);
        std::string line = err.substr(p, e - p);
        for (const char *stop : {" on address", " on ", " in ", " (", ":"}) {
            size_t q = line.find(stop);
            if (q != std::string::npos) line.resize(q);
        }
        std::replace(line.begin(), line.end(), ' ', '_');
        return "san:" + line;
    }
    p = err.find("ERROR: LeakSanitizer");
    if (p != std::string::npos) return "san:leak";
    p = err.find("runtime error: ");
    if (p != std::string::npos) {
        p += strlen("runtime error: ");
        size_t e = err.find('\n', p);
        std::string m = err.substr(p, e - p);
        // keep the message class, drop operands
        std::string cls;
        for (char c : m) {
            if (isdigit((unsigned char) c) || c == '-') break;
            cls += c;
        }
        while (!cls.empty() && cls.back() == ' ') cls.pop_back();
        std::replace(cls.begin(), cls.end(), ' ', '_');
        return "ubsan:" + cls;
    }
    return "san:unknown";
}

EvalResult eval_forked(const Property *prop, const Plan &plan, int timeout_s) {
    EvalResult r;
    int pfd[2];
    if (pipe(pfd) != 0) return r;
    int efd = memfd_create("scpisim-stderr", 0);
    fflush(stdout);
    fflush(stderr);
    pid_t pid = fork();
    if (pid < 0) {
        close(pfd[0]);
        close(pfd[1]);
        if (efd >= 0) close(efd);
        return r;
    }
    if (pid == 0) {
        close(pfd[0]);
        if (efd >= 0) dup2(efd, 2);
        g_collect = false;
        alarm((unsigned) timeout_s);
        Verdict v;
        prop->execute(plan, v);
        std::string msg;
        msg += v.violated ? v.rule : std::string();
        msg += '\0';
        msg += v.sig;
        msg += '\0';
        msg += v.detail;
        msg += '\0';
        msg += std::to_string(v.trace_hash);
        msg += '\0';
        ssize_t w = write(pfd[1], msg.data(), msg.size());
        (void) w;
        _exit(0);
    }
    close(pfd[1]);
    std::string msg = read_all_fd(pfd[0]);
    close(pfd[0]);
    int st = 0;
    waitpid(pid, &st, 0);
    std::string err;
    if (efd >= 0) {
        lseek(efd, 0, SEEK_SET);
        err = read_all_fd(efd);
        close(efd);
    }
    r.ok = true;
    if (WIFEXITED(st) && WEXITSTATUS(st) == 0) {
        std::vector<std::string> parts;
        size_t s = 0;
        for (size_t i = 0; i < msg.size(); i++)
            if (msg[i] == '\0') {
                parts.push_back(msg.substr(s, i - s));
                s = i + 1;
            }
        if (parts.size() >= 4) {
            r.rule = parts[0];
            r.sig = parts[1];
            r.detail = parts[2];
            r.hash = strtoull(parts[3].c_str(), nullptr, 10);
        } else {
            r.ok = false;
        }
    } else if (WIFEXITED(st) && WEXITSTATUS(st) == 77) {
        r.rule = classify_sanitizer(err);
        r.sig = r.rule;
        r.detail = err.substr(0, 3000);
    } else if (WIFSIGNALED(st) && WTERMSIG(st) == SIGALRM) {
        r.rule = "hang";
        r.sig = "hang";
        r.detail = "watchdog expired after " + std::to_string(timeout_s) + " s";
    } else if (WIFSIGNALED(st)) {
        r.rule = "signal:" + std::to_string(WTERMSIG(st));
        r.sig = r.rule;
        r.detail = err.substr(0, 3000);
    } else {
        r.rule = "exit:" + std::to_string(WIFEXITED(st) ? WEXITSTATUS(st) : -1);
        r.sig = r.rule;
        r.detail = err.substr(0, 3000);
    }
    return r;
}

namespace {
struct Shrinker {
    const Property *prop;
    std::string rule;
    ShrinkStats &st;
    int max_evals;
    bool test(const Plan &p) {
        // a hang costs its whole timeout per evaluation: minimise it with a short watchdog (runs take milliseconds) and few evaluations
        bool hang = rule == "hang";
        if (st.evals >= (hang ? std::min(max_evals, 40) : max_evals)) return false;
        st.evals++;
        EvalResult r = eval_forked(prop, p, hang ? 3 : 10);
        return r.ok && r.rule == rule;
    }

    // classic ddmin on the op list
    void ddmin(Plan &p) {
        size_t n = 2;
        while (p.ops.size() >= 1 && st.evals < max_evals) {
            size_t len = p.ops.size();
            if (n > len) n = len;
            size_t chunk = (len + n - 1) / n;
            bool reduced = false;
            for (size_t start = 0; start < len; start += chunk) {
                Plan c = p;
                size_t end = std::min(len, start + chunk);
                c.ops.erase(c.ops.begin() + (long) start, c.ops.begin() + (long) end);
                if (test(c)) {
                    p = c;
                    n = std::max<size_t>(n - 1, 2);
                    reduced = true;
                    break;
                }
            }
            if (!reduced) {
                if (chunk <= 1) break;
                n = std::min(n * 2, len);
            }
        }
    }

    bool shrink_string(Plan &p, size_t oi) {
        bool any = false;
        size_t chunk = std::max<size_t>(p.ops[oi].s.size() / 2, 1);
        while (chunk >= 1 && st.evals < max_evals) {
            bool reduced = false;
            for (size_t start = 0; start < p.ops[oi].s.size();) {
                Plan c = p;
                size_t end = std::min(c.ops[oi].s.size(), start + chunk);
                c.ops[oi].s.erase(start, end - start);
                if (test(c)) {
                    p = c;
                    reduced = any = true;
                } else {
                    start += chunk;
                }
                if (st.evals >= max_evals) break;
            }
            if (!reduced) {
                if (chunk == 1) break;
                chunk /= 2;
            }
        }
        return any;
    }

    bool shrink_int(Plan &p, long &slot_ref, std::function<long &(Plan &)> slot) {
        (void) slot_ref;
        bool any = false;
        for (int guard = 0; guard < 40 && st.evals < max_evals; guard++) {
            long cur = slot(p);
            if (cur == 0) break;
            std::vector<long> cands = {0, cur / 2, cur > 0 ? cur - 1 : cur + 1};
            bool reduced = false;
            for (long cand : cands) {
                if (cand == cur || std::labs(cand) >= std::labs(cur)) continue;
                Plan c = p;
                slot(c) = cand;
                if (test(c)) {
                    p = c;
                    reduced = any = true;
                    break;
                }
            }
            if (!reduced) break;
        }
        return any;
    }

    void simplify(Plan &p) {
        bool progress = true;
        int rounds = 0;
        while (progress && rounds++ < 4 && st.evals < max_evals) {
            progress = false;
            for (size_t i = 0; i < p.ops.size() && st.evals < max_evals; i++) {
                if (p.ops[i].has_s && !p.ops[i].s.empty()) progress |= shrink_string(p, i);
                for (size_t j = 0; j < p.ops[i].a.size(); j++) {
                    long dummy = 0;
                    progress |= shrink_int(p, dummy, [i, j](Plan &q) -> long & { return q.ops[i].a[j]; });
                }
                // drop trailing zero args? no: arity is part of the op
            }
            // knobs: try removing (default), then shrinking toward 0
            std::vector<std::string> names;
            for (auto &kv : p.knob) names.push_back(kv.first);
            for (auto &nm : names) {
                if (st.evals >= max_evals) break;
                Plan c = p;
                c.knob.erase(nm);
                if (test(c)) {
                    p = c;
                    progress = true;
                    continue;
                }
                long dummy = 0;
                progress |= shrink_int(p, dummy, [nm](Plan &q) -> long & { return q.knob[nm]; });
            }
        }
    }
};
}   // namespace

Plan shrink_plan(const Property *prop, const Plan &plan, const std::string &rule, ShrinkStats &st, int max_evals) {
    Plan p = plan;
    st.ops_before = p.ops.size();
    Shrinker s{prop, rule, st, max_evals};
    s.ddmin(p);
    s.simplify(p);
    s.ddmin(p);
    st.ops_after = p.ops.size();
    return p;
}
