// Core of the deterministic simulator: PRNG, plans (replay files), verdicts,
// probe counters, distinct-hash sets and the property registry.
#pragma once
#include <cstdint>
#include <cstdio>
#include <cstring>
#include <map>
#include <string>
#include <unordered_set>
#include <vector>

// ---------------------------------------------------------------- hashing
static inline uint64_t fnv1a(const void *p, size_t n, uint64_t h = 1469598103934665603ULL) {
    const unsigned char *b = (const unsigned char *) p;
    for (size_t i = 0; i < n; i++) {
        h ^= b[i];
        h *= 1099511628211ULL;
    }
    return h;
}
static inline uint64_t fnv1a(const std::string &s, uint64_t h = 1469598103934665603ULL) {
    return fnv1a(s.data(), s.size(), h);
}
static inline uint64_t mix64(uint64_t x) {
    x += 0x9e3779b97f4a7c15ULL;
    x = (x ^ (x >> 30)) * 0xbf58476d1ce4e5b9ULL;
    x = (x ^ (x >> 27)) * 0x94d049bb133111ebULL;
    return x ^ (x >> 31);
}

// ---------------------------------------------------------------- PRNG
// xoshiro256** seeded through splitmix64. One Rng per run; plan generation is
// the only place that draws from it.
struct Rng {
    uint64_t s[4];
    explicit Rng(uint64_t seed) {
        uint64_t x = seed;
        for (int i = 0; i < 4; i++) {
            x += 0x9e3779b97f4a7c15ULL;
            uint64_t z = x;
            z = (z ^ (z >> 30)) * 0xbf58476d1ce4e5b9ULL;
            z = (z ^ (z >> 27)) * 0x94d049bb133111ebULL;
            s[i] = z ^ (z >> 31);
        }
    }
    static inline uint64_t rotl(uint64_t x, int k) { return (x << k) | (x >> (64 - k)); }
    uint64_t next() {
        const uint64_t result = rotl(s[1] * 5, 7) * 9;
        const uint64_t t = s[1] << 17;
        s[2] ^= s[0];
        s[3] ^= s[1];
        s[1] ^= s[2];
        s[0] ^= s[3];
        s[2] ^= t;
        s[3] = rotl(s[3], 45);
        return result;
    }
    // uniform in [0, n)
    uint64_t below(uint64_t n) { return n ? next() % n : 0; }
    // uniform in [lo, hi]
    long range(long lo, long hi) { return hi <= lo ? lo : lo + (long) below((uint64_t) (hi - lo + 1)); }
    bool chance(int num, int den) { return (long) below((uint64_t) den) < num; }
    template <class T> const T &pick(const std::vector<T> &v) { return v[below(v.size())]; }
    template <class T, size_t N> const T &pick(const T (&v)[N]) { return v[below(N)]; }
};

// ---------------------------------------------------------------- plans
// A plan is the complete description of one simulated run: knobs plus an
// ordered list of ops. Executing a plan draws nothing from a PRNG and reads no
// clock, so a plan file is a replay file. Ops carry a kind, integer arguments
// and an optional byte string. Executors interpret every plan totally (indices
// are taken modulo what exists, unknown ops are skipped) so that the shrinker
// can delete and simplify freely.
struct Op {
    std::string kind;
    std::vector<long> a;
    std::string s;
    bool has_s = false;
    Op() {}
    Op(const std::string &k) : kind(k) {}
    Op(const std::string &k, std::vector<long> args) : kind(k), a(std::move(args)) {}
    Op(const std::string &k, std::vector<long> args, const std::string &str) : kind(k), a(std::move(args)), s(str), has_s(true) {}
    long arg(size_t i, long def = 0) const { return i < a.size() ? a[i] : def; }
};

struct Plan {
    std::string prop;
    std::string config;
    uint64_t seed = 0;     // run seed the plan was generated from (informational)
    long index = -1;       // run index within the batch (informational)
    std::map<std::string, long> knob;
    std::vector<Op> ops;
    long k(const std::string &name, long def = 0) const {
        auto it = knob.find(name);
        return it == knob.end() ? def : it->second;
    }
};

std::string c_escape(const std::string &s);
bool c_unescape(const std::string &s, std::string &out);
std::string plan_to_text(const Plan &p);
bool plan_from_text(const std::string &text, Plan &p, std::string &err);
bool plan_load(const std::string &path, Plan &p, std::string &err);
bool plan_save(const std::string &path, const Plan &p);

// ---------------------------------------------------------------- verdicts
struct Verdict {
    bool violated = false;
    std::string rule;     // oracle rule id (stable; the shrinker keeps a candidate only if the same rule fires)
    std::string sig;      // structural facts about the violation, used by known-finding predicates
    std::string detail;   // human readable
    uint64_t trace_hash = 0;
    bool nontrivial = false;   // at least one handler ran or one error was raised
    uint64_t sim_ms = 0;       // simulated time covered by the run
    void fail(const std::string &r, const std::string &sg, const std::string &d) {
        if (violated) return;   // first violation wins
        violated = true;
        rule = r;
        sig = sg;
        detail = d;
    }
};

// ---------------------------------------------------------------- counters
// Probe / fault counters: name -> count of runs or events, accumulated per worker.
struct Counters {
    std::map<std::string, uint64_t> c;
    void add(const char *name, uint64_t n = 1) { c[name] += n; }
};
extern Counters g_counters;
#define COUNT(name) g_counters.add(name)
#define COUNTN(name, n) g_counters.add(name, (n))

// Named sets of 64-bit hashes ("trace", "state", "transition", "interleaving").
struct HashSets {
    std::map<std::string, std::unordered_set<uint64_t>> sets;
    size_t cap = 4000000;
    void add(const char *name, uint64_t h) {
        auto &s = sets[name];
        if (s.size() < cap) s.insert(h);
    }
};
extern HashSets g_sets;
extern bool g_collect;   // false while shrinking / replaying, so that they do not pollute measures

// ---------------------------------------------------------------- properties
struct GenOpts {
    std::string tier;              // quick | thorough
    std::string config;            // malloc | heap | noinfo | dtostre | user | noinfouser
    std::vector<std::string> avoid;   // generator switches to keep off (open known findings)
    bool avoids(const char *sw) const {
        for (auto &a : avoid) if (a == sw) return true;
        return false;
    }
};

struct Property {
    const char *id;
    const char *title;
    // configurations this property runs under (subset of what the binary is)
    std::vector<std::string> configs;
    // generate plan number `index` of the batch from the PRNG
    void (*generate)(Rng &rng, const GenOpts &opts, Plan &plan);
    // execute a plan against the real library; total on all plans
    void (*execute)(const Plan &plan, Verdict &v);
    // probes the workload is expected to hit (reported under probes_zero when not)
    std::vector<std::string> probes;
    // one-line description of generation and of the non-trivial/distinct rule (for evidence)
    const char *rule_text;
};

const std::vector<const Property *> &all_properties();
const Property *find_property(const std::string &id);
void register_property(const Property *p);
struct PropertyRegistrar {
    explicit PropertyRegistrar(const Property *p) { register_property(p); }
};

const char *build_config();   // malloc | heap | noinfo | dtostre | user | noinfouser (compile-time)

// shrinker (shrink.cc)
struct ShrinkStats {
    int evals = 0;
    size_t ops_before = 0, ops_after = 0;
};
// Evaluate a plan in a forked child: returns rule ("" if no violation), fills sig/detail/hash.
// Sanitizer aborts, signals and watchdog expiry are reported as rules "san:<kind>", "signal:<n>", "hang".
struct EvalResult {
    std::string rule, sig, detail;
    uint64_t hash = 0;
    bool ok = false;   // evaluation machinery itself worked
};
EvalResult eval_forked(const Property *prop, const Plan &plan, int timeout_s = 10);
Plan shrink_plan(const Property *prop, const Plan &plan, const std::string &rule, ShrinkStats &st, int max_evals = 3000);
