// Edge counters for the library objects (-fsanitize-coverage=trace-pc-guard).
// Used only to MEASURE reach (distinct library edges hit); never steers generation.
#include <cstdint>

#include "core.h"

static uint8_t g_edge_hit[1 << 16];
static uint32_t g_edge_total = 0;

extern "C" void __sanitizer_cov_trace_pc_guard_init(uint32_t *start, uint32_t *stop) {
    if (start == stop || *start) return;
    for (uint32_t *x = start; x < stop; x++) *x = ++g_edge_total;
}

extern "C" void __sanitizer_cov_trace_pc_guard(uint32_t *guard) {
    uint32_t g = *guard;
    if (g && g < sizeof g_edge_hit) g_edge_hit[g] = 1;
}

uint32_t cov_total() { return g_edge_total; }

void cov_to_sets() {
    for (uint32_t i = 1; i <= g_edge_total && i < sizeof g_edge_hit; i++)
        if (g_edge_hit[i]) g_sets.add("edge", i);
}
