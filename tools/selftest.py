#!/usr/bin/env python3
"""selftest.py [--runs N] [props...]: determinism proof. For every claimed property and configuration, run indices
0..N-1 are executed in fresh processes with 1, 7 and 16 workers (and once more with 16); the per-index trace hashes must
be identical in all four runs. Worker count must never influence what run i does. Exit 2 on any divergence."""
import json, os, shutil, subprocess, sys
sys.path.insert(0, os.path.dirname(os.path.abspath(__file__)))
import simbuild, check

def hashes(binp, prop, runs, nworkers, outdir, tag):
    os.makedirs(outdir, exist_ok=True)
    base = os.path.join(outdir, "%s_%s" % (prop, tag))
    procs = [subprocess.Popen([binp, "work", prop, "--seed", "7", "--runs", str(runs), "--worker", str(w), "--nworkers", str(nworkers),
                               "--hashlog", base, "--maxfail", "1000000", "--recheck", "0"], stdout=subprocess.DEVNULL, stderr=subprocess.DEVNULL)
             for w in range(nworkers)]
    for p in procs: p.wait()
    h = {}
    for w in range(nworkers):
        for line in open("%s.%d" % (base, w)):
            i, x = line.split()
            h[int(i)] = x
    return h

def main():
    args = [a for a in sys.argv[1:] if not a.startswith("--")]
    runs = 2000
    if "--runs" in sys.argv: runs = int(sys.argv[sys.argv.index("--runs") + 1]); args = [a for a in args if a != str(runs)]
    props = args or sorted(check.BUDGET)
    tmp = os.path.join(check.VERIF, "build", "tmp", "selftest_%d" % os.getpid())
    bad = 0
    try:
        for prop in props:
            for config in check.BUDGET[prop]["quick"]:
                binp = simbuild.build(config)
                ref = hashes(binp, prop, runs, 1, tmp, config + "_1")
                for nw, tag in ((7, "7"), (16, "16"), (16, "16b")):
                    h = hashes(binp, prop, runs, nw, tmp, config + "_" + tag)
                    diff = [i for i in range(runs) if ref.get(i) != h.get(i)]
                    if diff:
                        bad += 1
                        print("NONDETERMINISM property=%s config=%s workers=%s first differing run indices %s" % (prop, config, tag, diff[:5]))
                print("%s/%s: %d run indices x {1,7,16,16} workers: %s" % (prop, config, runs, "identical" if not bad else "SEE ABOVE"))
    finally:
        shutil.rmtree(tmp, ignore_errors=True)
    return 2 if bad else 0

if __name__ == "__main__":
    sys.exit(main())
