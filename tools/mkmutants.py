#!/usr/bin/env python3
"""Regenerates mutants/*.patch from the table below (exact-string edits against /repo HEAD).
Each mutant is a realistic property-breaking slip. `tools/sensitivity.py` applies each to a scratch worktree,
runs the repository's own test suite there (to show the tests do not notice) and the listed quick checks."""
import os, subprocess, sys, shutil
VERIF = os.path.dirname(os.path.dirname(os.path.abspath(__file__)))

M = [
 # name, properties, file, old, new
 ("c01_overrun_guard_off_by_one", "C01", "libscpi/src/parser.c",
  "        if (len > (buffer_free - 1)) {", "        if (len > buffer_free) {"),
 ("c01_no_nul_after_append", "C01", "libscpi/src/parser.c",
  "        context->buffer.position += len;\n        context->buffer.data[context->buffer.position] = 0;\n", "        context->buffer.position += len;\n"),
 ("c01_block_length_unchecked", "C01,C08", "libscpi/src/lexer.c",
  "                if ((state->buffer + state->len) >= (state->pos)) {", "                if ((state->buffer + state->len + 1) >= (state->pos)) {"),
 ("c01_copytext_bound", "C01", "libscpi/src/parser.c",
  "                    if (i_to + 1 >= buffer_len) {", "                    if (i_to > buffer_len) {"),
 ("c01_channel_capacity", "C01", "libscpi/src/expression.c",
  "        if (i < length) {\n            SCPI_ParamToInt32(context, &param, &values[i]);", "        if (i <= length) {\n            SCPI_ParamToInt32(context, &param, &values[i]);"),
 ("c01_header_compose_underflow", "C01,C02", "libscpi/src/utils.c",
  "    /* Previsou command was common command - nothing to do */\n    if (prev->ptr[0] == '*')\n        return TRUE;\n", ""),
 ("c02_last_match_wins", "C02", "libscpi/src/parser.c",
  "            context->param_list.cmd = cmd;\n            return TRUE;\n        }\n    }\n    return FALSE;", "            context->param_list.cmd = cmd;\n            found = TRUE;\n        }\n    }\n    return found;"),
 ("c02_static_prev_header", "C02,C09", "libscpi/src/parser.c",
  "    scpi_token_t cmd_prev = {SCPI_TOKEN_UNKNOWN, NULL, 0};", "    static scpi_token_t cmd_prev = {SCPI_TOKEN_UNKNOWN, NULL, 0};"),
 ("c02_path_only_after_found", "C02,C09", "libscpi/src/parser.c",
  "            /* header path continues from this unit even if its header is undefined */\n            cmd_prev = state->programHeader;\n", ""),
 ("c05_surplus_after_error", "C05", "libscpi/src/parser.c",
  "    if (state->pos < (state->buffer + state->len) && !context->cmd_error) {", "    if (state->pos < (state->buffer + state->len)) {"),
 ("c05_return_value_accumulates", "C05", "libscpi/src/parser.c",
  "                result = SCPI_Parse(context, context->buffer.data, totcmdlen);", "                result &= SCPI_Parse(context, context->buffer.data, totcmdlen);"),
 ("c05_silent_failure_not_reported", "C05", "libscpi/src/parser.c",
  "            if (!context->cmd_error) {\n                SCPI_ErrorPush(context, SCPI_ERROR_EXECUTION_ERROR);\n            }", "            if (!context->cmd_error && context->input_count == 0) {\n                SCPI_ErrorPush(context, SCPI_ERROR_EXECUTION_ERROR);\n            }"),
 ("c05_bool_suffix_accepted", "C05", "libscpi/src/parser.c",
  "        if (param.type == SCPI_TOKEN_DECIMAL_NUMERIC_PROGRAM_DATA) {\n            SCPI_ParamToInt32(context, &param, &intval);", "        if (SCPI_ParamIsNumber(&param, TRUE)) {\n            SCPI_ParamToInt32(context, &param, &intval);"),
 ("c05_ws_after_number_dropped", "C05", "libscpi/src/parser.c",
  "                /* no suffix - white space after the number still belongs to the parameter */\n                realLen += wsLen;\n", "                /* no suffix */\n"),
 ("c06_first_output_not_reset", "C06,C09", "libscpi/src/parser.c",
  "    context->output_count = 0;\n    context->first_output = TRUE;\n", "    context->output_count = 0;\n"),
 ("c06_separator_stays_pending", "C06,C09", "libscpi/src/parser.c",
  "    context->output_separator = FALSE;\n\n    /* response data were written", "    /* response data were written"),
 ("c06_newline_only_after_success", "C06", "libscpi/src/parser.c",
  "    if (context->output_count > 0) {\n        context->first_output = FALSE;\n    }\n", ""),
 ("c08_incomplete_block_not_swallowed", "C08", "libscpi/src/lexer.c",
  "        token->type = SCPI_TOKEN_UNKNOWN;\n        token->len = 0;\n        state->pos = state->buffer + state->len;\n    } else {\n        /* invalid */", "        token->type = SCPI_TOKEN_UNKNOWN;\n        token->len = 0;\n        state->pos = token->ptr;\n    } else {\n        /* invalid */"),
 ("c08_remainder_shift_short", "C08,C01", "libscpi/src/parser.c",
  "                memmove(context->buffer.data, context->buffer.data + totcmdlen, context->buffer.position - totcmdlen);", "                memmove(context->buffer.data, context->buffer.data + totcmdlen, context->buffer.position - totcmdlen - (context->buffer.position - totcmdlen > 8 ? 1 : 0));"),
 ("c08_flush_keeps_position", "C08,C09", "libscpi/src/parser.c",
  "        result = SCPI_Parse(context, context->buffer.data, context->buffer.position);\n        context->buffer.position = 0;", "        result = SCPI_Parse(context, context->buffer.data, context->buffer.position);\n        if (result) context->buffer.position = 0;"),
 ("c09_block_accounting_leaks", "C09,C17", "libscpi/src/parser.c",
  "    context->input_count = 0;\n    context->arbitrary_remaining = 0;\n", "    context->input_count = 0;\n"),
 ("c09_param_ordinal_leaks", "C09,C05", "libscpi/src/parser.c",
  "    context->output_count = 0;\n    context->input_count = 0;\n", "    context->output_count = 0;\n"),
 ("c10_remove_last_wrong_slot", "C10", "libscpi/src/fifo.c",
  "    fifo->wr = (fifo->wr + fifo->size - 1) % (fifo->size);\n\n    if (value) {\n        *value = fifo->data[fifo->wr];", "    if (value) {\n        *value = fifo->data[fifo->wr];\n    }\n    fifo->wr = (fifo->wr + fifo->size - 1) % (fifo->size);\n\n    if (0) {"),
 ("c10_clear_leaks_texts", "C10", "libscpi/src/error.c",
  "    while (fifo_remove(&context->error_queue, &error)) {\n        SCPIDEFINE_free(&context->error_info_heap, error.device_dependent_info, false);\n    }", "    while (fifo_remove(&context->error_queue, &error)) {\n    }"),
 ("c10_overflow_double_free", "C10", "libscpi/src/error.c",
  "        fifo_remove_last(&context->error_queue, &error_value);\n        SCPIDEFINE_free", "        SCPIDEFINE_free"),
 ("c10_pop_empty_stale_code", "C10", "libscpi/src/error.c",
  "    SCPI_ERROR_SETVAL(error, 0, NULL);\n    fifo_remove(&context->error_queue, error);", "    if (!fifo_remove(&context->error_queue, error)) {\n        error->error_code = 0;\n    }"),
 ("c11_mss_mask_includes_bit6", "C11,C12", "libscpi/src/ieee488.c",
  "                scpi_reg_val_t sre = context->registers[SCPI_REG_SRE] & ~STB_SRQ;", "                scpi_reg_val_t sre = context->registers[SCPI_REG_SRE];"),
 ("c11_eav_not_cleared_by_clear", "C11", "libscpi/src/error.c",
  "    fifo_clear(&context->error_queue);\n\n    SCPI_ErrorEmitEmpty(context);", "    fifo_clear(&context->error_queue);\n"),
 ("c11_enable_write_same_value_shortcut", "C11", "libscpi/src/ieee488.c",
  "                scpi_bool_t summary = SCPI_RegGet(context, register_group.event) & val;\n\n                name = register_group.parent_reg;", "                scpi_bool_t summary = SCPI_RegGet(context, register_group.event) & val & old_val;\n\n                name = register_group.parent_reg;"),
 ("c12_class_boundary", "C12", "libscpi/src/error.c",
  "    {-100, -199, ESR_CER},", "    {-100, -200, ESR_CER},"),
 ("c12_condition_latch_level", "C12", "libscpi/src/ieee488.c",
  "                    val = ((old_val ^ val) & val) | SCPI_RegGet(context, register_group.event);", "                    val = ((old_val ^ val) & old_val) | SCPI_RegGet(context, register_group.event);"),
 ("c12_srq_only_on_stb_rise", "C12", "libscpi/src/ieee488.c",
  "                    if (ptrans & val) {", "                    if ((ptrans & val) && register_type == SCPI_REG_CLASS_STB) {"),
 ("c12_cls_keeps_oper", "C12,C11", "libscpi/src/ieee488.c",
  "        if (event_reg != SCPI_REG_STB) {", "        if (event_reg != SCPI_REG_STB && event_reg != SCPI_REG_OPER) {"),
 ("c17_swap64_middle", "C17", "libscpi/src/utils.c",
  "            ((val & 0x00000000FF000000ull) << 8) |\n            ((val & 0x000000FF00000000ull) >> 8) |", "            ((val & 0x00000000FF000000ull) << 8) |\n            ((val & 0x000000FF00000000ull) >> 24) |"),
 ("c17_overlength_by_one_accepted", "C17", "libscpi/src/parser.c",
  "    if (context->arbitrary_remaining < len) {", "    if (context->arbitrary_remaining + 1 < len) {"),
 ("c17_block_counted_at_header", "C17,C06", "libscpi/src/parser.c",
  "    if (len == 0) {\n        /* empty block is complete, no data will follow */\n        context->output_count++;\n    }", "    context->output_count++;"),
 ("c18_limit_off_by_one", "C18", "libscpi/src/parser.c",
  "            if ((step = quote - data[i] + 1) >= outputlimit) {", "            if ((step = quote - data[i] + 1) > outputlimit) {"),
 ("c18_semicolon_not_counted", "C18", "libscpi/src/parser.c",
  "            result += writeSemicolon(context);\n            outputlimit -= 1;", "            result += writeSemicolon(context);"),
 ("c20_heap_free_count", "C20,C18", "libscpi/src/utils.c",
  "        len[1]++;\n        memset(data_add, 0, len[1]);\n        heap->count += len[1];", "        memset(data_add, 0, len[1]);\n        heap->count += len[1];"),
 ("c20_heap_rollback_always", "C20", "libscpi/src/utils.c",
  "    if (rollback) {\n        size_t rb = len[0] + len[1];", "    if (rollback || heap->count > 3) {\n        size_t rb = len[0] + len[1];"),
 ("c20_heap_fit_check", "C20", "libscpi/src/utils.c",
  "    if (len > heap->count) {\n        return NULL;\n    }", "    if (len > heap->count + 1) {\n        return NULL;\n    }"),
]

def main():
    out = os.path.join(VERIF, "mutants")
    os.makedirs(out, exist_ok=True)
    scratch = "/var/tmp/scpi_mkmut_%d" % os.getpid()
    subprocess.run(["git", "-C", "/repo", "worktree", "add", "--detach", "-f", scratch, "HEAD"], check=True, stdout=subprocess.DEVNULL, stderr=subprocess.DEVNULL)
    try:
        for name, props, path, old, new in M:
            fp = os.path.join(scratch, path)
            src = open(fp).read()
            if src.count(old) != 1:
                print("SKIP %s: anchor found %d times" % (name, src.count(old)))
                continue
            mod = src.replace(old, new, 1)
            if name == "c02_last_match_wins":
                mod = mod.replace("    int32_t i;\n    const scpi_command_t * cmd;\n\n    for (i = 0; context->cmdlist[i].pattern != NULL; i++) {", "    int32_t i;\n    const scpi_command_t * cmd;\n    scpi_bool_t found = FALSE;\n\n    for (i = 0; context->cmdlist[i].pattern != NULL; i++) {", 1)
            open(fp, "w").write(mod)
            d = subprocess.run(["git", "-C", scratch, "diff"], stdout=subprocess.PIPE, text=True).stdout
            open(os.path.join(out, name + ".patch"), "w").write("# property: %s\n%s" % (props, d))
            subprocess.run(["git", "-C", scratch, "checkout", "--", "."], check=True)
    finally:
        subprocess.run(["git", "-C", "/repo", "worktree", "remove", "--force", scratch], stdout=subprocess.DEVNULL, stderr=subprocess.DEVNULL)
        shutil.rmtree(scratch, ignore_errors=True)

if __name__ == "__main__":
    main()
