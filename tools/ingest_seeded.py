#!/usr/bin/env python3
"""ingest_seeded.py <property> <name> <needs...>: take the change a sub-agent left in /tmp/wt_<property>/demo, verify it independently in a
fresh scratch worktree of /repo (tests pass with the change, demo passes without it and fails with it) and store it as seeded/<name>/."""
import json, os, re, shutil, subprocess, sys
VERIF = os.path.dirname(os.path.dirname(os.path.abspath(__file__)))

def sh(cmd, cwd=None, timeout=900):
    p = subprocess.run(cmd, shell=True, cwd=cwd, stdout=subprocess.PIPE, stderr=subprocess.STDOUT, text=True, errors="replace", timeout=timeout)
    return p.returncode, p.stdout

def main():
    prop, name = sys.argv[1], sys.argv[2]
    needs = " ".join(sys.argv[3:])
    src = os.environ.get("DEMODIR") or os.path.join(os.environ.get("WTDIR", "/tmp/wt_%s" % prop), "demo")
    dst = os.path.join(VERIF, "seeded", name)
    os.makedirs(dst, exist_ok=True)
    for f in ("patch.diff", "demo.c", "run.sh", "NOTES.md"):
        if os.path.exists(os.path.join(src, f)):
            shutil.copy(os.path.join(src, f), os.path.join(dst, f))
    scratch = "/var/tmp/scpi_ingest_%d" % os.getpid()
    subprocess.run(["git", "-C", "/repo", "worktree", "add", "--detach", "-f", scratch, "HEAD"], check=True, stdout=subprocess.DEVNULL, stderr=subprocess.DEVNULL)
    ran = []
    try:
        shutil.copytree(dst, os.path.join(scratch, "demo"))
        rc0, out0 = sh("sh ./run.sh", cwd=os.path.join(scratch, "demo"))
        ran.append({"cmd": "demo/run.sh on unchanged tree", "exit": rc0})
        rca, outa = sh("git apply --whitespace=nowarn demo/patch.diff", cwd=scratch)
        ran.append({"cmd": "git apply demo/patch.diff", "exit": rca})
        rct, outt = sh("make -C libscpi clean test", cwd=scratch)
        failed = re.findall(r"^\s+tests\s+\d+\s+\d+\s+\d+\s+(\d+)", outt, re.M)
        ran_tests = re.findall(r"^\s+tests\s+\d+\s+(\d+)", outt, re.M)
        ran.append({"cmd": "make -C libscpi clean test (with the change)", "exit": rct, "tests_run": sum(map(int, ran_tests)), "tests_failed": sum(map(int, failed))})
        rc1, out1 = sh("sh ./run.sh", cwd=os.path.join(scratch, "demo"))
        ran.append({"cmd": "demo/run.sh with the change", "exit": rc1})
        ok = rc0 == 0 and rca == 0 and rct == 0 and sum(map(int, failed)) == 0 and sum(map(int, ran_tests)) == 71 and rc1 != 0
        meta = {"property": prop, "needs": needs, "source": "independent sub-agent given only the property text and a scratch worktree",
                "verified_by_me": ok, "ran": ran}
        json.dump(meta, open(os.path.join(dst, "meta.json"), "w"), indent=1)
        print(name, "VERIFIED" if ok else "NOT VERIFIED", json.dumps(ran))
        if not ok:
            print(out0[-500:], outa[-300:], out1[-500:])
    finally:
        subprocess.run(["git", "-C", "/repo", "worktree", "remove", "--force", scratch], stdout=subprocess.DEVNULL, stderr=subprocess.DEVNULL)
        shutil.rmtree(scratch, ignore_errors=True)

if __name__ == "__main__":
    main()
