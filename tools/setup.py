#!/usr/bin/env python3
"""setup: build every configuration of the simulator from /repo (offline, files on disk only)."""
import os, sys
sys.path.insert(0, os.path.dirname(os.path.abspath(__file__)))
import simbuild
from concurrent.futures import ThreadPoolExecutor
def main():
    with ThreadPoolExecutor(max_workers=4) as ex:
        for b in ex.map(simbuild.build, list(simbuild.CONFIG_FLAGS)):
            print("built", b)
    import selftest
    sys.argv = [sys.argv[0], "--runs", "600"]
    return selftest.main()
if __name__ == "__main__":
    sys.exit(main())
