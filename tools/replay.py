#!/usr/bin/env python3
"""replay.py <plan file>: rebuild the right configuration from /repo and replay the plan in a fresh process.
exit 1 + VIOLATION line if the plan violates its property (sanitizer aborts are reported the same way)."""
import os, re, subprocess, sys
sys.path.insert(0, os.path.dirname(os.path.abspath(__file__)))
import simbuild

def main():
    path = sys.argv[1]
    txt = open(path).read()
    m = re.search(r"^config (\S+)", txt, re.M)
    p = re.search(r"^prop (\S+)", txt, re.M)
    if not m or not p:
        sys.stderr.write("not a plan file\n"); return 2
    binp = simbuild.build(m.group(1))
    env = dict(os.environ); env["ASAN_OPTIONS"] = "symbolize=1"
    r = subprocess.run([binp, "replay", path], env=env, stdout=subprocess.PIPE, stderr=subprocess.PIPE, text=True, errors="replace")
    sys.stdout.write(r.stdout); sys.stderr.write(r.stderr)
    if r.returncode == 0: return 0
    if r.returncode == 1: return 1
    if r.returncode == 77 or r.returncode < 0:
        print("VIOLATION property=%s replay=%s" % (p.group(1), path)); return 1
    return 2

if __name__ == "__main__":
    sys.exit(main())
