#!/usr/bin/env python3
"""Regenerates MANIFEST.json from the table below (kept as code so that the manifest stays consistent)."""
import json, os, subprocess
VERIF = os.path.dirname(os.path.dirname(os.path.abspath(__file__)))

CLAIMED = {
    "C02": ("DESIGN.md §4 C02",
            "Which handler runs is stateful along the message (the path token points into a buffer that is rewritten in place) and across messages; seeded command "
            "tables from the supported pattern grammar (and the shipped tables) with 1..6 messages of 1..6 units (entry spellings, relative tails, undefined headers) "
            "are delivered under any segmentation, after broken or overrun predecessors, with the -113 text allocation failing. An independent composer and a "
            "pattern-language acceptor predict, per unit delimited by hook H2, the single entry that must run (tag, SCPI_IsCmd, effective header) or the single -113 "
            "whose queued text contains the header; one instrument in five has two tables and handlers that point the context at the other one (looked up per unit). Exploration level.",
            "Tables are restricted to the class C03 describes (keywords of a pattern pairwise distinct in short and long form); numeric-suffix values are C03's subject "
            "and not asserted. Messages longer than the input buffer are skipped.",
            "deterministic simulation: seeded tables/messages/histories with allocation faults against an independent composer and acceptor"),
    "C05": ("DESIGN.md §4 C05, Appendix A.1",
            "Per-unit accounting state (error flag, parameter cursor) and the per-call return value are exercised by seeded input calls of 1..3 messages of 1..4 units; "
            "every unit pairs a seeded handler signature (15 readers incl. arrays, mandatory/optional, four return policies incl. silent failure and errors pushed from "
            "inside the handler) with a list of items whose class and value are known by construction, blanks around commas, malformed fragments; return value, raised "
            "codes and delivered value/extent per reader call follow table A.1, -108/-200 accounting per unit, SCPI_Input return value per call. Exploration level.",
            "Which -1xx code a malformed list gets is not asserted; the numeric value of non-integer literals is C04's subject and not asserted; plans whose labels "
            "disagree with their literals (possible only through shrinking) are inert.",
            "deterministic simulation: seeded handler-failure/segmentation schedules with by-construction expectations"),
    "C06": ("DESIGN.md §4 C06",
            "Framing state is carried across units and messages; the simulator drives seeded messages of 1..6 units over scripted handlers (queries emitting 0..4 "
            "items of every result type, succeeding, failing silently, failing after emitting, raising errors mid-unit; commands), any segmentation, after any "
            "previous message, with write() returning short/0/-1 and flush() failing. Captured bytes and flush count must equal one member of the acceptable set "
            "computed from independently encoded payloads (table A.2, both readings of the open rows); handlers may relay a message to a second context, whose own response must be framed too; default build and the build whose response terminator is a run-time setting (CRLF, LF, CR). Exploration level.",
            "A query whose handler succeeded with zero items may or may not count as a response unit (both accepted). Float/double digits come from the stand-alone "
            "formatter (C16's subject).",
            "deterministic simulation: seeded handler-failure and transport-fault sequences, acceptable-set framing model"),
    "C17": ("DESIGN.md §4 C17",
            "Blocks are produced by a sequence of calls sharing state; seeded handler scripts emit arrays of all ten element types in NORMAL/SWAPPED/ASCII (source arrays at element-aligned, not only allocator-aligned addresses), one-shot "
            "and streamed blocks with every split of header/data calls (zero-length pieces, incomplete, over-length at any point), header-only calls up to 10^9-1, a second context answering with arrays of its own from inside the write callback, "
            "items after complete/incomplete blocks, under transport faults. Every call's bytes are compared with an independent shift-based encoder; over-length "
            "data must be refused with an error. Exploration level.",
            "Host is little-endian: 'whatever the host byte order' is exercised for one host order only.",
            "deterministic simulation: seeded call-sequence splits and handler faults against an independent encoder"),
    "C01": ("DESIGN.md §4 C01",
            "Seeded search over input streams x segmentations x histories x sizes x build configurations: grammar-generated, byte-mutated, boundary-truncated "
            "and raw streams fed in 1-byte / small / whole / random segments with idle flushes, oversize chunks, direct SCPI_Parse lines, firmware pushes, "
            "allocation and transport faults; a torture handler applies every Param*/ParamTo*/ParamArray*/Expr*/Result* API with exact-size buffers. Oracle: "
            "AddressSanitizer + UBSan on the real library objects, hook H1 (stale input-buffer tail poisoned), position < length after every call, "
            "everything consumed after a well-formed terminated stream, watchdog and a progress bound. All four builds. Exploration level.",
            "No coverage feedback (that would be fuzzing). Intra-object overflows inside scpi_t are invisible to ASan. One host, clang 14 -O1.",
            "deterministic simulation: seeded streams/segmentations/fault schedules under sanitizers with input-tail poisoning"),
    "C08": ("DESIGN.md §4 C08",
            "The segmentation of the byte stream is the schedule. Twin worlds built from the same knobs run the same real code: R receives the stream one "
            "byte per call, S under a seeded schedule (every family of the statement; single split points swept for short streams); handler invocations "
            "with parameters and typed values, output bytes, flush count, error sequence, drained queue and remainder must agree. A zero-length call is "
            "compared against SCPI_Parse of the pending bytes in a third world. Exploration level.",
            "Reference is the same real code under the canonical schedule (differential), so a defect that is independent of chunking is invisible here. "
            "Calls are clipped to fit the buffer (the statement's precondition); overrun behaviour belongs to C01/C05.",
            "deterministic simulation: seeded segmentation schedules, twin-world differential oracle, idle-timer flush"),
    "C09": ("DESIGN.md §4 C09",
            "Histories on one long-lived context: seeded sequences of well-formed, mutated and deliberately broken messages (half blocks, failing handlers, "
            "unterminated text flushed by the idle timer, oversize chunks, firmware errors) followed by B, against B on a fresh context; and U1;U2 against U2 "
            "alone. B's invocations, parameters, output, flushes and raised codes must be equal; queue-overflow effects are masked, B never reads status.",
            "Differential against the same code on a fresh context; effects through status registers and the error queue are exempt as the statement says.",
            "deterministic simulation: seeded fault histories (client death, idle flush, overrun, handler failure), fresh-context twin oracle"),
    "C10": ("DESIGN.md §4 C10",
            "Seeded operation histories (1..1500, thorough ..10000 ops) of firmware pushes/pops/clears/counts interleaved with controller traffic over the "
            "segmenting link, allocation failures injected per push through the wrapped strndup, capacities 1..6, malloc and no-info builds; a reference "
            "FIFO (A.4) and an allocation ledger are compared after every operation; ASan catches double free / use after free, the ledger catches leaks.",
            "Exploration, not the exhaustive enumeration the quantifier mentions (that would be model checking). The -113 text is predicted for absolute "
            "headers only.",
            "deterministic simulation: seeded histories with allocation-fault injection against a reference FIFO and ownership ledger"),
    "C18": ("DESIGN.md §4 C18",
            "Every SYST:ERR? issued in seeded queue/heap histories (texts 0..400 characters, quotes at and around the 255 boundary and at heap-wrap part "
            "boundaries, codes with and without description, errors pushed from inside the write callback while a response is being sent) is parsed by an independent IEEE 488.2 reader: one valid string, content a prefix of "
            "description;text, <= 255 characters, not cut earlier than the escaped-length limit allows, entry consumed. malloc and static-heap builds, the build with a user error list (266 descriptions, some containing quotes) and the same without device-dependent information.",
            "The 255 limit is accepted on either reading (escaped or unescaped length). Descriptions are taken from the library's X-macro list as data.",
            "deterministic simulation: seeded heap-layout histories, independent response reader as oracle"),
    "C20": ("DESIGN.md §4 C20",
            "Static-heap build: seeded histories of pushes with texts of length 0..heap+3, pops via SYST:ERR? and SCPI_ErrorPop, clears and overflows on heaps "
            "of 2..64 (and 600) bytes; reference queue 'exactly the pushed text or nothing', text mandatory when the queue was empty and it fits; exact-size "
            "heap allocation under ASan guards everything outside the heap; errors are also pushed from inside the write callback while SYST:ERR? is answering.",
            "Exploration; whether a text is stored when the queue is not empty is deliberately not asserted (statement allows nothing).",
            "deterministic simulation: seeded histories with heap exhaustion against a reference queue"),
    # id: (design_ref, level text, level_note, technique)
    "C11": ("DESIGN.md §4 C11",
            "Seeded search over interleavings of controller status commands (segmented input, several units per message) and firmware register / "
            "error-queue calls, including firmware calls placed inside running handlers; the invariant STB == summary(registers, queue) is evaluated "
            "from SCPI_RegGet/SCPI_ErrorCount after every API call, handler, unit and input call (not inside callbacks, where the outer call is still under way); deployments without error/control/reset callback or without any interface, SRQ and error callbacks that fail, push errors or write registers themselves; default build and the build with 37 user register groups, where the status byte has one more summary bit behind it (a group without enable register). Exploration: a clean batch is evidence, not proof.",
            "Trusts the harness observers and that every legal interleaving is an order of whole API calls (library is documented non-reentrant). "
            "Direct writes to STB summary bits are outside the history alphabet and not generated.",
            "deterministic simulation: seeded cooperative scheduler over controller/firmware actors, state invariant checked after every event"),
    "C12": ("DESIGN.md §4 C12",
            "Same simulated histories as C11 with transition oracles on before/after snapshots: error class bit per pushed code (all class boundaries, "
            "thorough: all 65536 codes inside long histories), condition 0->1 latching, persistence of event bits across non-clearing operations and "
            "units, SRQ callback value and rising-edge announcement; in the build with user register groups also latching through a positive-transition filter and through the summary bit a group below writes into a condition register. Exploration level.",
            "DER appearing on a queue-overflowing push is tolerated (statement open on whether -350 is a queued error); extra SRQ callbacks while MSS "
            "is already 1 are not flagged.",
            "deterministic simulation: seeded histories with before/after transition rules and callback observers"),
}

NOT_APPLICABLE = {
    "C03": "pure function of (pattern, header): no state, schedule, fault or history for a simulator to control; deciding it is language-equivalence enumeration, another technique",
    "C04": "pure function of one literal; parameters are decoded only after the whole message is buffered and NUL-terminated, so no schedule/fault dimension exists",
    "C07": "composition of two pure functions of a value (format, then lex+decode); nothing depends on schedule, fault or history",
    "C13": "each recogniser is a pure function of (buffer, offset, length); regular-language equivalence is decided by enumeration, not by schedules",
    "C14": "pure function of (value, base, buffer length); exhaustive-sweep territory",
    "C15": "pure functions of (value, buffer length); no call-sequence state, schedule or fault involved",
    "C16": "pure function of (value, precision, build configuration)",
    "C19": "pure function of (expression text, index, capacity)",
}
PENDING = {k: "claimed in DESIGN.md; its simulator workload and oracle are not built yet in this commit" for k in
           ["C01", "C02", "C05", "C06", "C08", "C09", "C10", "C17", "C18", "C20"] if k not in CLAIMED}

def main():
    checks = []
    for pid, (ref, text, note, tech) in sorted(CLAIMED.items()):
        checks.append({
            "property_id": pid,
            "quick_cmd": "python3 tools/check.py %s quick" % pid,
            "thorough_cmd": "python3 tools/check.py %s thorough" % pid,
            "evidence_file": "/verif/evidence/%s.json" % pid,
            "replay_cmd_template": "python3 tools/replay.py {path}",
            "engine": "scpisim",
            "level_claimed": {"category": "exploration", "text": text, "design_ref": ref},
            "level_note": note,
            "technique": tech,
        })
    na = [{"property_id": k, "reason": v} for k, v in sorted({**NOT_APPLICABLE, **PENDING}.items())]
    hooks_commits = subprocess.run(["git", "-C", "/repo", "log", "--format=%H", "--grep=^verif:"], stdout=subprocess.PIPE, text=True).stdout.split()
    m = {
        "version": 1,
        "setup_cmd": "python3 tools/setup.py",
        "hooks": {
            "guard": "SCPI_PARSER_VERIF",
            "enable": "tools/simbuild.py compiles /repo/libscpi/src/*.c with clang -DSCPI_PARSER_VERIF -fsanitize=address,undefined (plus the configuration defines) and links them into build/<config>/scpisim",
            "baseline_off_cmd": "make -C /repo/libscpi clean test",
            "source_commits": hooks_commits,
            "add_only": True,
        },
        "engines": [{
            "name": "scpisim",
            "path": "/verif/sim",
            "serves_properties": sorted(CLAIMED.keys()),
            "kind_free_text": "deterministic simulator: one seeded PRNG decides plan (segmentation, delays, idle flushes, resets, oversize chunks, firmware calls, handler scripts, allocation/transport faults); plans are replay files; forked evaluation, ddmin shrinker; real libscpi objects built from /repo with ASan+UBSan",
        }],
        "checks": checks,
        "not_applicable": na,
        "notes": "VERIF_SEED selects the base seed, VERIF_TIER overrides the tier, VERIF_WORKERS the worker count (default 16). known_findings.json lists open and fixed findings; see DESIGN.md.",
    }
    with open(os.path.join(VERIF, "MANIFEST.json"), "w") as f:
        json.dump(m, f, indent=1)
        f.write("\n")

if __name__ == "__main__":
    main()
