#!/usr/bin/env python3
"""mutation_campaign.py [--max N] [--scale S] [--region name]: systematic first-order mutants of the code regions named in the
property anchors. For every mutant: apply to a scratch worktree, run the repository's 71 tests (a mutant the tests kill is
recorded and skipped), then run the quick checks mapped to the region (VERIF_SCALE default 0.3) and record which one
raises a VIOLATION. Survivors are listed at the end for manual classification (equivalent / outside the claimed
statements / blind spot). Output: build/mutation_campaign.txt (one line per mutant)."""
import os, re, shutil, subprocess, sys, hashlib
VERIF = os.path.dirname(os.path.dirname(os.path.abspath(__file__)))

REGIONS = [
    # name, file, first line, last line, properties to run
    ("parser.framing", "libscpi/src/parser.c", 85, 182, ["C06", "C05", "C09"]),
    ("parser.dispatch", "libscpi/src/parser.c", 186, 275, ["C02", "C05", "C09"]),
    ("parser.input", "libscpi/src/parser.c", 342, 402, ["C08", "C01", "C09", "C05"]),
    ("parser.resulterror", "libscpi/src/parser.c", 592, 650, ["C18"]),
    ("parser.blocks", "libscpi/src/parser.c", 657, 716, ["C17", "C06"]),
    ("parser.parameter", "libscpi/src/parser.c", 744, 800, ["C05"]),
    ("parser.readers", "libscpi/src/parser.c", 1013, 1130, ["C05"]),
    ("parser.text_choice_bool", "libscpi/src/parser.c", 1244, 1412, ["C05", "C01"]),
    ("parser.programdata", "libscpi/src/parser.c", 1417, 1550, ["C05", "C08", "C01"]),
    ("parser.arraybinary", "libscpi/src/parser.c", 1621, 1676, ["C17", "C06"]),
    ("utils.compose", "libscpi/src/utils.c", 678, 712, ["C02", "C01"]),
    ("utils.heap", "libscpi/src/utils.c", 775, 902, ["C20", "C18", "C01"]),
    ("error", "libscpi/src/error.c", 60, 215, ["C10", "C11", "C12", "C20", "C05"]),
    ("fifo", "libscpi/src/fifo.c", 40, 146, ["C10", "C20"]),
    ("ieee488.regset", "libscpi/src/ieee488.c", 147, 292, ["C11", "C12", "C10"]),
    ("minimal", "libscpi/src/minimal.c", 78, 215, ["C10", "C11", "C12"]),
    ("lexer.string_block", "libscpi/src/lexer.c", 634, 790, ["C08", "C05", "C01"]),
]

def mutants_of_line(line):
    """yield (description, new_line)"""
    code = line.split("/*")[0]
    if not code.strip() or code.strip().startswith(("*", "//", "#")):
        return
    # relational operators
    for m in re.finditer(r"(?<![<>=!\-])(<=|>=|==|!=|<|>)(?![<>=])", code):
        op = m.group(1)
        if op in ("<", ">") and (code[m.start() - 1:m.start()] == "-" or code[m.end():m.end() + 1] == ">"):
            continue   # -> operator
        for rep in {"<": ["<="], "<=": ["<"], ">": [">="], ">=": [">"], "==": ["!="], "!=": ["=="]}[op]:
            yield ("%s -> %s @%d" % (op, rep, m.start()), line[:m.start()] + rep + line[m.end():])
    for m in re.finditer(r"&&|\|\|", code):
        rep = "||" if m.group(0) == "&&" else "&&"
        yield ("%s -> %s @%d" % (m.group(0), rep, m.start()), line[:m.start()] + rep + line[m.end():])
    for m in re.finditer(r"([+-]) 1\b", code):
        rep = "-" if m.group(1) == "+" else "+"
        yield ("%s1 -> %s1 @%d" % (m.group(1), rep, m.start()), line[:m.start()] + rep + line[m.start() + 1:])
        yield ("drop %s1 @%d" % (m.group(1), m.start()), line[:m.start()] + line[m.end():])
    for m in re.finditer(r"\b(TRUE|FALSE)\b", code):
        rep = "FALSE" if m.group(1) == "TRUE" else "TRUE"
        yield ("%s -> %s @%d" % (m.group(1), rep, m.start()), line[:m.start()] + rep + line[m.end():])
    s = code.strip()
    # statement deletion: simple assignments, increments and calls on one line
    if re.match(r"^[A-Za-z_][\w\->\.\[\]\* ]*(\+\+|--|\s[+\-|&]?=\s[^=].*);$", s) or re.match(r"^[A-Za-z_]\w*\(.*\);$", s):
        if not s.startswith(("return", "break", "continue", "case", "default")) and "size_t " not in s and "int " not in s.split("=")[0] and "char " not in s.split("=")[0]:
            indent = line[:len(line) - len(line.lstrip())]
            yield ("delete statement", indent + ";" + ("\n" if line.endswith("\n") else ""))

def run(cmd, cwd=None, env=None, timeout=600):
    import signal
    p = subprocess.Popen(cmd, cwd=cwd, env=env, stdout=subprocess.PIPE, stderr=subprocess.STDOUT, text=True, errors="replace", start_new_session=True)
    try:
        o, _ = p.communicate(timeout=timeout)
        return p.returncode, o
    except subprocess.TimeoutExpired:
        try:
            os.killpg(p.pid, signal.SIGKILL)
        except OSError:
            pass
        p.wait()
        return 124, "timeout"

def main():
    maxn = int(sys.argv[sys.argv.index("--max") + 1]) if "--max" in sys.argv else 100000
    scale = sys.argv[sys.argv.index("--scale") + 1] if "--scale" in sys.argv else "0.3"
    only = sys.argv[sys.argv.index("--region") + 1] if "--region" in sys.argv else None
    stride = int(sys.argv[sys.argv.index("--stride") + 1]) if "--stride" in sys.argv else 1
    offset = int(sys.argv[sys.argv.index("--offset") + 1]) if "--offset" in sys.argv else 0
    out_path = os.path.join(VERIF, "build", "mutation_campaign%s.txt" % ("_" + only if only else ""))
    scratch = "/var/tmp/scpi_mutc_%d" % os.getpid()
    subprocess.run(["git", "-C", "/repo", "worktree", "add", "--detach", "-f", scratch, "HEAD"], check=True, stdout=subprocess.DEVNULL, stderr=subprocess.DEVNULL)
    n = 0
    done = set()
    if os.path.exists(out_path):
        for l in open(out_path):
            done.add(l.split("|")[0].strip())
    try:
        with open(out_path, "a") as out:
            for name, path, lo, hi, props in REGIONS:
                if only and only != name:
                    continue
                fp = os.path.join(scratch, path)
                lines = open(fp).read().splitlines(keepends=True)
                cands = []
                for ln in range(lo - 1, min(hi, len(lines))):
                    for desc, new in mutants_of_line(lines[ln]):
                        cands.append((ln, desc, new))
                for k, (ln, desc, new) in enumerate(cands):
                    if k % stride != offset:
                        continue
                    if n >= maxn:
                        break
                    n += 1
                    mod = list(lines)
                    mod[ln] = new
                    open(fp, "w").write("".join(mod))
                    tag = "%s:%d %s" % (path.split("/")[-1], ln + 1, desc)
                    if tag in done:
                        open(fp, "w").write("".join(lines))
                        continue
                    rc, o = run(["make", "-C", os.path.join(scratch, "libscpi"), "clean", "test"], timeout=120)
                    ran = sum(int(x) for x in re.findall(r"^\s+tests\s+\d+\s+(\d+)", o, re.M))
                    failed = sum(int(x) for x in re.findall(r"^\s+tests\s+\d+\s+\d+\s+\d+\s+(\d+)", o, re.M))
                    run(["make", "-C", os.path.join(scratch, "libscpi"), "clean"])
                    if rc == 124:
                        verdict = "KILLED-BY-TESTS (hang)"
                    elif ran != 71 or failed or rc != 0:
                        verdict = "KILLED-BY-TESTS" if ran else "BUILD-FAILED"
                    else:
                        env = dict(os.environ)
                        env["SCPI_REPO"] = scratch
                        env["VERIF_SCALE"] = scale
                        verdict = "SURVIVED"
                        for prop in props:
                            rc2, o2 = run([sys.executable, os.path.join(VERIF, "tools", "check.py"), prop, "quick"], env=env)
                            if rc2 == 1 and "VIOLATION property=%s" % prop in o2:
                                rules = sorted(set(re.findall(r"violation rule=(\S+)", o2)))
                                verdict = "CAUGHT %s %s" % (prop, ",".join(rules))
                                break
                            if rc2 == 2:
                                verdict = "MACHINERY %s" % prop
                                break
                    out.write("%-60s | %-45s | %s\n" % (tag, new.strip()[:45], verdict))
                    out.flush()
                    open(fp, "w").write("".join(lines))
    finally:
        subprocess.run(["git", "-C", "/repo", "worktree", "remove", "--force", scratch], stdout=subprocess.DEVNULL, stderr=subprocess.DEVNULL)
        shutil.rmtree(scratch, ignore_errors=True)
        import glob
        for d in glob.glob(os.path.join(VERIF, "build", "*-" + hashlib.sha256(scratch.encode()).hexdigest()[:8])):
            shutil.rmtree(d, ignore_errors=True)
    print("done", n, "mutants ->", out_path)

if __name__ == "__main__":
    main()
