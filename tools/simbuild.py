#!/usr/bin/env python3
"""Build scpisim for one configuration from the CURRENT working tree of the
repository (default /repo, override SCPI_REPO only for sensitivity runs on
scratch copies). Objects are cached by the content hash of everything they
depend on, so an edit anywhere under libscpi/ or sim/ triggers a rebuild and an
unchanged tree costs only the hashing."""
import fcntl
import hashlib
import os
import subprocess
import sys
from concurrent.futures import ThreadPoolExecutor

VERIF = os.path.dirname(os.path.dirname(os.path.abspath(__file__)))
SIM = os.path.join(VERIF, "sim")

CONFIG_FLAGS = {
    "malloc": [],
    "heap": ["-DUSE_MEMORY_ALLOCATION_FREE=0", "-DSIM_CONFIG_HEAP"],
    "noinfo": ["-DUSE_DEVICE_DEPENDENT_ERROR_INFORMATION=0", "-DSIM_CONFIG_NOINFO"],
    "dtostre": ["-DUSE_CUSTOM_DTOSTRE=1", "-DSIM_CONFIG_DTOSTRE"],
    # the documented extension points: user status registers (one group with transition filters) and a user error list
    "user": ["-DSCPI_USER_CONFIG=1", "-I" + os.path.join(SIM, "userconfig"), "-DSIM_CONFIG_USER"],
    # cross product: the extension points of `user` in a build without device-dependent error information
    "noinfouser": ["-DUSE_DEVICE_DEPENDENT_ERROR_INFORMATION=0", "-DSIM_CONFIG_NOINFO", "-DSCPI_USER_CONFIG=1", "-I" + os.path.join(SIM, "userconfig"), "-DSIM_CONFIG_USER"],
}
LIB_SRCS = ["error.c", "fifo.c", "ieee488.c", "minimal.c", "parser.c", "units.c", "utils.c", "lexer.c", "expression.c"]
SAN = ["-fsanitize=address,undefined,float-cast-overflow", "-fno-sanitize-recover=all", "-fno-omit-frame-pointer"]
COMMON = ["-O1", "-g", "-DSCPI_PARSER_VERIF"]


def repo_root():
    return os.environ.get("SCPI_REPO", "/repo")


def _read(path):
    with open(path, "rb") as f:
        return f.read()


def _hash_files(paths, extra):
    h = hashlib.sha256()
    for p in sorted(paths):
        h.update(p.encode())
        h.update(b"\0")
        h.update(_read(p))
        h.update(b"\0")
    h.update(repr(extra).encode())
    return h.hexdigest()


def _listdir(d, exts):
    out = []
    for root, _dirs, files in os.walk(d):
        for f in files:
            if f.endswith(exts):
                out.append(os.path.join(root, f))
    return out


def build(config, verbose=False):
    """Returns path of the binary. Raises RuntimeError on compile errors."""
    repo = repo_root()
    lib = os.path.join(repo, "libscpi")
    inc = os.path.join(lib, "inc")
    src = os.path.join(lib, "src")
    tag = "" if repo == "/repo" else "-" + hashlib.sha256(repo.encode()).hexdigest()[:8]
    bdir = os.path.join(VERIF, "build", config + tag)
    os.makedirs(os.path.join(bdir, "lib"), exist_ok=True)
    os.makedirs(os.path.join(bdir, "sim"), exist_ok=True)
    lock = open(os.path.join(bdir, ".lock"), "w")
    fcntl.flock(lock, fcntl.LOCK_EX)
    try:
        cflags = CONFIG_FLAGS[config]
        repo_headers = _listdir(inc, (".h",)) + _listdir(src, (".h",))
        sim_headers = _listdir(SIM, (".h",))
        incs = ["-I" + inc, "-I" + src]
        jobs = []
        objs = []
        for s in LIB_SRCS:
            sp = os.path.join(src, s)
            o = os.path.join(bdir, "lib", s[:-2] + ".o")
            cmd = ["clang", "-c"] + COMMON + SAN + ["-fsanitize-coverage=trace-pc-guard"] + cflags + incs + ["-o", o, sp]
            key = _hash_files([sp] + repo_headers + _listdir(os.path.join(SIM, "userconfig"), (".h",)), cmd)
            jobs.append((o, key, cmd))
            objs.append(o)
        for sp in _listdir(SIM, (".cc",)):
            rel = os.path.relpath(sp, SIM).replace("/", "_")
            o = os.path.join(bdir, "sim", rel[:-3] + ".o")
            cmd = ["clang++", "-c", "-std=c++17", "-Wall", "-Wno-unused-function"] + COMMON + SAN + cflags + incs + ["-I" + SIM, "-o", o, sp]
            key = _hash_files([sp] + repo_headers + sim_headers, cmd)
            jobs.append((o, key, cmd))
            objs.append(o)

        def run(job):
            o, key, cmd = job
            kf = o + ".key"
            if os.path.exists(o) and os.path.exists(kf) and _read(kf).decode() == key:
                return (o, False, "")
            if os.path.exists(kf):
                os.remove(kf)
            p = subprocess.run(cmd, stdout=subprocess.PIPE, stderr=subprocess.STDOUT, text=True)
            if p.returncode != 0:
                raise RuntimeError("compile failed: %s\n%s" % (" ".join(cmd), p.stdout))
            with open(kf, "w") as f:
                f.write(key)
            return (o, True, p.stdout)

        with ThreadPoolExecutor(max_workers=16) as ex:
            results = list(ex.map(run, jobs))
        rebuilt = [o for (o, r, _w) in results if r]
        if verbose:
            for (_o, _r, warn) in results:
                if warn.strip():
                    sys.stderr.write(warn)
        binp = os.path.join(bdir, "scpisim")
        linkkey = hashlib.sha256(("".join(sorted(_read(o + ".key").decode() for o in objs))).encode()).hexdigest()
        lk = binp + ".key"
        if rebuilt or not os.path.exists(binp) or not os.path.exists(lk) or _read(lk).decode() != linkkey:
            cmd = ["clang++"] + SAN + ["-Wl,--wrap=strndup,--wrap=free", "-o", binp] + sorted(objs) + ["-lm"]
            p = subprocess.run(cmd, stdout=subprocess.PIPE, stderr=subprocess.STDOUT, text=True)
            if p.returncode != 0:
                raise RuntimeError("link failed:\n" + p.stdout)
            with open(lk, "w") as f:
                f.write(linkkey)
        return binp
    finally:
        fcntl.flock(lock, fcntl.LOCK_UN)
        lock.close()


if __name__ == "__main__":
    cfgs = sys.argv[1:] or list(CONFIG_FLAGS)
    for c in cfgs:
        try:
            print(build(c, verbose=True))
        except RuntimeError as e:
            sys.stderr.write(str(e) + "\n")
            sys.exit(2)
