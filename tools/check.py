#!/usr/bin/env python3
"""check.py <property> <quick|thorough>

Rebuilds scpisim from /repo's current working tree for every configuration the
property runs under, launches the seeded workers, gates / minimises / replays
every violation, applies known_findings.json, writes evidence/<id>.json.

exit 0: property held on everything explored (open known findings are printed as KNOWN-FINDING lines)
exit 1: VIOLATION property=<id> replay=<path>
exit 2: machinery failure (build error, nondeterminism, a violation that does not reproduce)
"""
import json
import os
import re
import shutil
import subprocess
import sys
import time

VERIF = os.path.dirname(os.path.dirname(os.path.abspath(__file__)))
sys.path.insert(0, os.path.join(VERIF, "tools"))
import simbuild  # noqa: E402

NWORKERS = int(os.environ.get("VERIF_WORKERS", "16"))

# runs per (property, tier) and configuration. Fixed numbers, so that one seed explores the same set every time.
BUDGET = {
    "C01": {"quick": {"malloc": 120000, "heap": 40000, "noinfo": 40000, "dtostre": 40000},
            "thorough": {"malloc": 6000000, "heap": 2000000, "noinfo": 2000000, "dtostre": 2000000}},
    "C02": {"quick": {"malloc": 300000}, "thorough": {"malloc": 12000000}},
    "C05": {"quick": {"malloc": 400000}, "thorough": {"malloc": 30000000}},
    "C06": {"quick": {"malloc": 150000, "user": 50000}, "thorough": {"malloc": 24000000, "user": 6000000}},
    "C08": {"quick": {"malloc": 100000}, "thorough": {"malloc": 4000000}},
    "C09": {"quick": {"malloc": 250000}, "thorough": {"malloc": 12000000}},
    "C10": {"quick": {"malloc": 120000, "noinfo": 60000}, "thorough": {"malloc": 4000000, "noinfo": 2000000}},
    "C11": {"quick": {"malloc": 240000, "user": 80000}, "thorough": {"malloc": 14000000, "user": 4000000}},
    "C12": {"quick": {"malloc": 240000, "user": 80000}, "thorough": {"malloc": 7000000, "user": 2000000}},
    "C17": {"quick": {"malloc": 200000}, "thorough": {"malloc": 8000000}},
    "C18": {"quick": {"malloc": 100000, "heap": 100000, "user": 40000, "noinfouser": 30000},
            "thorough": {"malloc": 3000000, "heap": 3000000, "user": 1000000, "noinfouser": 600000}},
    "C20": {"quick": {"heap": 200000}, "thorough": {"heap": 6000000}},
}
TIME_CAP = {"quick": 60, "thorough": 1500}     # seconds per worker batch; only guards against a slow machine
WITNESS_RUNS = {"quick": 4000, "thorough": 40000}
MAX_SHRINK = 6                                    # violations minimised per pass and configuration

STUBS = ["link (segmentation, delays, resets, oversize chunks)", "idle timer and simulated clock", "firmware task", "output sink (write/flush)",
         "command handlers (scripted)", "allocator wrapper (strndup/free)"]
REAL = ["libscpi/src/parser.c", "libscpi/src/lexer.c", "libscpi/src/utils.c", "libscpi/src/error.c", "libscpi/src/fifo.c", "libscpi/src/ieee488.c",
        "libscpi/src/minimal.c", "libscpi/src/units.c", "libscpi/src/expression.c"]


def log(msg):
    sys.stderr.write(msg + "\n")
    sys.stderr.flush()


def load_known():
    p = os.path.join(VERIF, "known_findings.json")
    if not os.path.exists(p):
        return []
    with open(p) as f:
        return json.load(f).get("findings", [])


def run_workers(binp, prop, tier, seed, runs, avoid, outdir, extra=None):
    os.makedirs(outdir, exist_ok=True)
    procs = []
    nw = min(NWORKERS, max(1, runs))
    for w in range(nw):
        cmd = [binp, "work", prop, "--tier", tier, "--seed", str(seed), "--worker", str(w), "--nworkers", str(nw), "--runs", str(runs),
               "--outdir", outdir, "--time-cap", str(TIME_CAP[tier]), "--maxfail", "4"]
        if avoid:
            cmd += ["--avoid", ",".join(sorted(avoid))]
        if extra:
            cmd += extra
        procs.append(subprocess.Popen(cmd, stdout=subprocess.PIPE, stderr=subprocess.PIPE, text=True, errors="replace"))
    res = {"runs": 0, "nontrivial": 0, "sim_ms": 0, "wall": 0.0, "counters": {}, "fails": [], "samples": [], "nondet": [], "lost": 0, "machinery": []}
    for p in procs:
        out, err = p.communicate()
        if p.returncode != 0:
            res["machinery"].append("worker exit %d: %s" % (p.returncode, err[-400:]))
        done = False
        for line in out.splitlines():
            try:
                j = json.loads(line)
            except ValueError:
                res["machinery"].append("unparsable worker line: " + line[:200])
                continue
            if "stats" in j:
                res["runs"] += j["runs"]
                res["nontrivial"] += j["nontrivial"]
                res["sim_ms"] += j["sim_ms"]
                res["wall"] = max(res["wall"], j["wall"])
                for k, v in j["counters"].items():
                    if k == "edges_total":
                        res["counters"][k] = v
                    else:
                        res["counters"][k] = res["counters"].get(k, 0) + v
            elif "fail" in j:
                res["fails"].append(j)
            elif "sample" in j:
                res["samples"].append(j["sample"])
            elif "nondet" in j:
                res["nondet"].append(j["nondet"])
            elif "lost_stats" in j:
                res["lost"] += 1
            elif "done" in j:
                done = True
        if not done:
            res["machinery"].append("worker did not finish: " + err[-400:])
    return res


def merge_sets(binp, outdir):
    names = {}
    if os.path.isdir(outdir):
        for f in os.listdir(outdir):
            m = re.match(r"w\d+\.\d+\.(.+)\.bin$", f)
            if m:
                names.setdefault(m.group(1), []).append(os.path.join(outdir, f))
    out = {}
    for name, files in names.items():
        p = subprocess.run([binp, "merge"] + files, stdout=subprocess.PIPE, text=True)
        try:
            out[name] = int(p.stdout.strip())
        except ValueError:
            out[name] = 0
    return out


def match_known(known, prop, rule, sig, plan_text):
    for k in known:
        if k.get("property") != prop or k.get("status") != "open":
            continue
        if not re.fullmatch(k.get("rule", ".*"), rule):
            continue
        if k.get("sig_regex") and not re.search(k["sig_regex"], sig):
            continue
        if k.get("plan_regex") and not re.search(k["plan_regex"], plan_text, re.S):
            continue
        return k
    return None


def process_fail(binp, prop, tier, seed, avoid, fail, replay_dir, config):
    """shrink -> fresh-process replay -> (rule, sig, detail, path) or raises RuntimeError (machinery)"""
    os.makedirs(replay_dir, exist_ok=True)
    path = os.path.join(replay_dir, "%s_%s_%d_%d.plan" % (prop, config, seed, fail["fail"]))
    cmd = [binp, "shrink", prop, "--tier", tier, "--seed", str(seed), "--index", str(fail["fail"]), "--out", path]
    if avoid:
        cmd += ["--avoid", ",".join(sorted(avoid))]
    p = subprocess.run(cmd, stdout=subprocess.PIPE, stderr=subprocess.PIPE, text=True, errors="replace")
    try:
        j = json.loads(p.stdout.strip().splitlines()[-1])
    except (ValueError, IndexError):
        raise RuntimeError("shrink produced no result for run %d: %s %s" % (fail["fail"], p.stdout[-300:], p.stderr[-300:]))
    if j.get("shrink") != "ok":
        raise RuntimeError("violation at run %d (rule %s) failed the gate: %s" % (fail["fail"], fail.get("rule"), j.get("shrink")))
    # fresh-process replay of the minimised file must fail the same way
    env = dict(os.environ)
    env["ASAN_OPTIONS"] = "symbolize=1"
    r = subprocess.run([binp, "replay", path], stdout=subprocess.PIPE, stderr=subprocess.PIPE, text=True, errors="replace", env=env)
    rule, sig, detail = j["rule"], j["sig"], j["detail"]
    if rule.startswith(("san:", "ubsan:")):
        if r.returncode != 77:
            raise RuntimeError("replay of %s did not reproduce the sanitizer report (exit %d)" % (path, r.returncode))
        frames = re.findall(r"#\d+ 0x[0-9a-f]+ in (\S+) (\S+)", r.stderr)
        libframes = [f for f in frames if "/libscpi/src/" in f[1]]
        top = libframes[0][0] if libframes else (frames[0][0] if frames else "?")
        m = re.search(r"(\S+libscpi/src/\S+:\d+)(:\d+)?: runtime error: ([^\n]*)", r.stderr)
        if m:
            sig = "%s at=%s" % (rule, os.path.basename(m.group(1)))
            detail = m.group(0)
        else:
            sig = "%s in=%s" % (rule, top)
            m2 = re.search(r"==\d+==ERROR: [^\n]*", r.stderr)
            detail = (m2.group(0) if m2 else rule) + " | frames: " + " <- ".join(f[0] for f in frames[:6])
    elif rule == "hang" or rule.startswith(("signal:", "exit:")):
        if r.returncode in (0, 1):
            raise RuntimeError("replay of %s did not reproduce %s" % (path, rule))
    else:
        m = re.search(r"RESULT property=\S+ violated=1 rule=(\S+) hash=([0-9a-f]+)", r.stdout)
        if r.returncode != 1 or not m or m.group(1) != rule or m.group(2) != j["hash"]:
            raise RuntimeError("replay of %s did not reproduce rule %s hash %s (exit %d: %s)" % (path, rule, j["hash"], r.returncode, r.stdout[-300:]))
    with open(path) as f:
        plan_text = f.read()
    return {"rule": rule, "sig": sig, "detail": detail, "path": path, "plan": plan_text, "evals": j["evals"], "ops_before": j["ops_before"],
            "ops_after": j["ops_after"], "index": fail["fail"], "config": config}


def main():
    if len(sys.argv) < 3:
        sys.stderr.write(__doc__)
        return 2
    prop = sys.argv[1]
    tier = os.environ.get("VERIF_TIER") or sys.argv[2]
    if tier not in ("quick", "thorough"):
        tier = "quick"
    seed = int(os.environ.get("VERIF_SEED", "1") or "1")
    if prop not in BUDGET:
        sys.stderr.write("unknown property %s\n" % prop)
        return 2
    t0 = time.time()
    known = load_known()
    open_known = [k for k in known if k.get("property") == prop and k.get("status") == "open"]
    avoid = set()
    for k in open_known:
        avoid.update(k.get("avoid", []))
    scale = float(os.environ.get("VERIF_SCALE", "1"))

    tmp = os.path.join(VERIF, "build", "tmp", "%s_%s_%d_%d" % (prop, tier, seed, os.getpid()))
    replay_dir = os.path.join(VERIF, "replays", prop if simbuild.repo_root() == "/repo" else "scratch-" + prop)
    total = {"runs": 0, "nontrivial": 0, "sim_ms": 0, "counters": {}, "samples": [], "per_config": {}}
    violations = []
    known_hits = {}
    machinery = []
    distinct = {}
    info = None
    worker_wall = 0.0
    try:
        for config, runs in BUDGET[prop][tier].items():
            runs = max(16, int(runs * scale))
            try:
                binp = simbuild.build(config)
            except RuntimeError as e:
                log(str(e))
                print("MACHINERY-FAILURE property=%s build failed for config %s" % (prop, config))
                return 2
            if info is None:
                info = json.loads(subprocess.run([binp, "info", prop], stdout=subprocess.PIPE, text=True).stdout)
            passes = [("main", runs, avoid)]
            if open_known and avoid:
                passes.append(("witness", min(runs, WITNESS_RUNS[tier]), set()))
            for pname, pruns, pavoid in passes:
                outdir = os.path.join(tmp, config, pname)
                # the witness pass uses a different base seed so that it is not a prefix of the main pass
                pseed = seed if pname == "main" else seed + 1000003
                res = run_workers(binp, prop, tier, pseed, pruns, pavoid, outdir)
                machinery += res["machinery"]
                if res["nondet"]:
                    machinery.append("nondeterministic runs: %s" % res["nondet"][:5])
                worker_wall += res["wall"]
                total["runs"] += res["runs"]
                total["nontrivial"] += res["nontrivial"]
                total["sim_ms"] += res["sim_ms"]
                for k, v in res["counters"].items():
                    if k == "edges_total":
                        total["counters"][k] = max(total["counters"].get(k, 0), v)
                    else:
                        total["counters"][k] = total["counters"].get(k, 0) + v
                if pname == "main" and len(total["samples"]) < 4:
                    total["samples"] += res["samples"][:2]
                total["per_config"]["%s/%s" % (config, pname)] = {"runs": res["runs"], "fails": len(res["fails"]), "wall_s": round(res["wall"], 2)}
                d = merge_sets(binp, outdir)
                for k, v in d.items():
                    distinct["%s/%s/%s" % (config, pname, k)] = v
                # gate, minimise and classify violations (bounded number per pass)
                seen_rules = {}
                for fail in sorted(res["fails"], key=lambda f: f["fail"]):
                    rkey = fail.get("rule", "?")
                    if seen_rules.get(rkey, 0) >= 2 or sum(seen_rules.values()) >= MAX_SHRINK:
                        continue
                    seen_rules[rkey] = seen_rules.get(rkey, 0) + 1
                    try:
                        v = process_fail(binp, prop, tier, pseed, pavoid, fail, replay_dir, config)
                    except RuntimeError as e:
                        machinery.append(str(e))
                        continue
                    k = match_known(known, prop, v["rule"], v["sig"], v["plan"])
                    if k:
                        known_hits.setdefault(k["id"], {"finding": k, "witness": v})
                    else:
                        violations.append(v)
    finally:
        shutil.rmtree(tmp, ignore_errors=True)

    wall = time.time() - t0
    # distinct measures: sum over configurations and passes of the per-batch unions (batches explore disjoint configurations/seeds)
    def dsum(name):
        return sum(v for k, v in distinct.items() if k.endswith("/" + name))
    edges = max([v for k, v in distinct.items() if k.endswith("/edge")] or [0])
    counters = total["counters"]
    faults = {k: v for k, v in counters.items() if k.startswith("fault_")}
    probes = {k: v for k, v in counters.items() if k.startswith("probe_")}
    probes_zero = [p for p in (info or {}).get("probes", []) if counters.get(p, 0) == 0]
    evidence = {
        "property_id": prop,
        "tier": tier,
        "seed": seed,
        "level": "exploration",
        "coverage": {
            "evaluations": total["runs"],
            "distinct_nontrivial": dsum("trace"),
            "rule": (info or {}).get("rule", ""),
            "samples": total["samples"][:4] + [v["plan"] for v in violations[:2]],
            "runs_per_hour": int(total["runs"] / max(wall, 1e-3) * 3600),
            "worker_wall_s": round(worker_wall, 2),
            "simulated_time_ms": total["sim_ms"],
            "faults_fired": faults,
            "probes": probes,
            "probes_zero": probes_zero,
            "other_counters": {k: v for k, v in counters.items() if not k.startswith(("fault_", "probe_"))},
            "distinct_abstract_states": dsum("state"),
            "distinct_transitions": dsum("transition"),
            "distinct_interleavings": dsum("interleaving"),
            "library_edges_reached": edges,
            "library_edges_total": counters.get("edges_total", 0),
            "per_config": total["per_config"],
            "configs": list(BUDGET[prop][tier].keys()),
            "workers": NWORKERS,
            "base_seed": seed,
            "real_components": REAL,
            "stub_components": STUBS,
            "known_findings_witnessed": sorted(known_hits.keys()),
            "generator_switches_off_in_main_pass": sorted(avoid),
            "exhaustive": False,
        },
        "assumptions": [
            "seeded sampling, not enumeration: a clean batch is evidence, not proof",
            "library contract is single-threaded: interleavings are orders of whole API calls (plus firmware calls inside handlers)",
            "one host (x86-64 little-endian, glibc, clang 14 -O1 with ASan+UBSan)",
            "hooks compiled in with -DSCPI_PARSER_VERIF only add poisoning and event reporting",
        ],
        "wall_s": round(wall, 2),
        "violations": len(violations),
    }
    evdir = os.path.join(VERIF, "evidence")
    if simbuild.repo_root() != "/repo":
        evdir = os.path.join(VERIF, "build", "tmp", "evidence-scratch")   # sensitivity runs never touch the committed evidence
    os.makedirs(evdir, exist_ok=True)
    with open(os.path.join(evdir, prop + ".json"), "w") as f:
        json.dump(evidence, f, indent=1)
        f.write("\n")

    for kid, h in sorted(known_hits.items()):
        print("KNOWN-FINDING: property=%s %s: %s (witness replay=%s)" % (prop, kid, h["finding"].get("description", ""), h["witness"]["path"]))
    for k in open_known:
        if k["id"] not in known_hits:
            # a listed finding is always announced; whether this run re-witnessed it is information, not a failure
            print("KNOWN-FINDING: property=%s %s: %s (not re-witnessed in this run)" % (prop, k["id"], k.get("description", "")))
    if machinery:
        for m in machinery[:10]:
            log("MACHINERY: " + m)
    for v in violations:
        log("violation rule=%s sig=%s\n  %s\n  minimised %d -> %d ops in %d evaluations" % (v["rule"], v["sig"], v["detail"][:600], v["ops_before"],
                                                                                        v["ops_after"], v["evals"]))
        print("VIOLATION property=%s replay=%s" % (prop, v["path"]))
    print("%s %s: %d runs, %d distinct non-trivial traces, %d violations, %d known findings, %.1f s" % (prop, tier, total["runs"], dsum("trace"),
                                                                                                      len(violations), len(known_hits), wall))
    if violations:
        return 1
    if machinery:
        print("MACHINERY-FAILURE property=%s (see stderr)" % prop)
        return 2
    return 0


if __name__ == "__main__":
    sys.exit(main())
