#!/usr/bin/env python3
"""sensitivity.py [names...]: apply each property-breaking patch (mutants/*.patch and seeded/*/patch.diff) to a scratch copy
of /repo under /var/tmp, run the property's quick check against the copy (SCPI_REPO override; evidence is not written),
and report whether a VIOLATION was raised. The scratch copy and its build output are removed afterwards."""
import glob, json, os, re, shutil, subprocess, sys
VERIF = os.path.dirname(os.path.dirname(os.path.abspath(__file__)))

def items():
    out = []
    for p in sorted(glob.glob(os.path.join(VERIF, "mutants", "*.patch"))):
        head = open(p).read(400)
        m = re.search(r"property:\s*([C0-9, ]+)", head)
        props = [x.strip() for x in m.group(1).split(",")] if m else []
        out.append((os.path.basename(p)[:-6], p, props))
    for d in sorted(glob.glob(os.path.join(VERIF, "seeded", "*"))):
        pf, mf = os.path.join(d, "patch.diff"), os.path.join(d, "meta.json")
        if os.path.exists(pf) and os.path.exists(mf):
            meta = json.load(open(mf))
            props = meta.get("detect_with") or [meta.get("property")]
            out.append(("seeded/" + os.path.basename(d), pf, props))
    return out

def main():
    want = [a for a in sys.argv[1:] if not a.startswith("--")]
    results = []
    for name, patch, props in items():
        if want and not any(w in name for w in want):
            continue
        scratch = "/var/tmp/scpi_sens_%d" % os.getpid()
        shutil.rmtree(scratch, ignore_errors=True)
        subprocess.run(["git", "-C", "/repo", "worktree", "add", "--detach", "-f", scratch, "HEAD"], stdout=subprocess.DEVNULL, stderr=subprocess.DEVNULL, check=True)
        try:
            # the working tree of /repo may differ from HEAD (should not); mirror tracked files' current content
            r = subprocess.run(["git", "-C", scratch, "apply", "--whitespace=nowarn", patch], stderr=subprocess.PIPE, text=True)
            if r.returncode != 0:
                results.append((name, props, "PATCH-DOES-NOT-APPLY", r.stderr.strip()[:200]))
                continue
            tests = ""
            if "--tests" in sys.argv:
                t = subprocess.run(["make", "-C", os.path.join(scratch, "libscpi"), "clean", "test"], stdout=subprocess.PIPE, stderr=subprocess.STDOUT, text=True, errors="replace")
                failed = sum(int(x) for x in re.findall(r"^\s+tests\s+\d+\s+\d+\s+\d+\s+(\d+)", t.stdout, re.M))
                ran = sum(int(x) for x in re.findall(r"^\s+tests\s+\d+\s+(\d+)", t.stdout, re.M))
                tests = "tests:%d/%d-failed " % (failed, ran) if ran == 71 else "tests:BUILD-OR-RUN-FAILED "
                subprocess.run(["make", "-C", os.path.join(scratch, "libscpi"), "clean"], stdout=subprocess.DEVNULL, stderr=subprocess.DEVNULL)
            env = dict(os.environ)
            env["SCPI_REPO"] = scratch
            env.setdefault("VERIF_SCALE", "1")
            verdicts = []
            for prop in props:
                p = subprocess.run([sys.executable, os.path.join(VERIF, "tools", "check.py"), prop, "quick"], env=env, stdout=subprocess.PIPE, stderr=subprocess.PIPE, text=True)
                caught = p.returncode == 1 and "VIOLATION property=%s" % prop in p.stdout
                rules = sorted(set(re.findall(r"violation rule=(\S+)", p.stderr)))
                verdicts.append("%s:%s%s" % (prop, "CAUGHT" if caught else ("MISSED(exit %d)" % p.returncode), (" " + ",".join(rules)) if rules else ""))
            results.append((name, props, tests + " ".join(verdicts), ""))
        finally:
            subprocess.run(["git", "-C", "/repo", "worktree", "remove", "--force", scratch], stdout=subprocess.DEVNULL, stderr=subprocess.DEVNULL)
            shutil.rmtree(scratch, ignore_errors=True)
            import hashlib
            for d in glob.glob(os.path.join(VERIF, "build", "*-" + hashlib.sha256(scratch.encode()).hexdigest()[:8])):
                shutil.rmtree(d, ignore_errors=True)   # only this run's own scratch build output (other runs may be in flight)
    for name, props, verdict, extra in results:
        print("%-40s %s %s" % (name, verdict, extra))
    return 0 if all("MISSED" not in r[2] and "PATCH" not in r[2] for r in results) else 1

if __name__ == "__main__":
    sys.exit(main())
